"""Pin typestate (C05): PIN-LEAK, GHOST-READ, PIN-OWNER.

Abstract objects are named by access path + version; each carries
(held, strength):

  held      this frame performed a successful activate+pin (or pin) on it that
            has not been matched by a release
  strength  U possibly ghost / P pinned here / W released or re-pinned by a
            callee, still loaded until Python code runs / E pinned by the
            caller (parameter whose summary is needs-pinned) / F fresh object
            created here / N tested non-ghost / T address escaped (no report)
"""
from ..cir import strip, path, callee, text, const_int
from ..cfg import CFG, state_cmp
from ..flow import Analysis, sget, sset, sdel, sitems, witness_lines
from ..common import AnalysisError

DATA_FIELDS = frozenset(["len", "size", "next", "keys", "values",
                         "firstbucket", "data"])

# CPython API that may run arbitrary Python code (and hence a cache sweep)
MAY_RUN_PY = frozenset("""
PyObject_RichCompareBool PyObject_CallObject PyObject_CallFunctionObjArgs
PyObject_GetAttr PyObject_GetAttrString PyObject_HasAttrString PyObject_GetIter
PyIter_Next PyObject_IsInstance PyObject_IsTrue PyObject_SetItem PyObject_Size
PySequence_Contains PySequence_GetItem PySequence_List PySet_New PyList_Sort
PyNumber_Xor PyNumber_AsSsize_t PyUnicode_Format PyUnicode_FromFormat
PyDict_SetItem PyArg_ParseTuple PyArg_ParseTupleAndKeywords Py_DECREF Py_XDECREF
""".split())

# constructors: the result is a fresh object without a jar (cannot be a ghost)
FRESH_CALLS = frozenset(["PyObject_CallObject", "_PyObject_New", "BTree_newBucket",
                         "PyObject_CallFunctionObjArgs"])

OK_STRENGTH = frozenset("PWEFNT")

# lifecycle slots: operate on raw memory behind an explicit ghost test
LIFECYCLE_SUFFIXES = ("_dealloc", "_tp_clear", "_traverse", "__p_deactivate")


def persistent_types(tu):
    """Type spellings that denote pointers to persistent structs."""
    names = set()
    for rec, fields in tu.records.items():
        fn = [f for f, _ in fields]
        if "state" in fn and "jar" in fn and "oid" in fn:
            names.add("struct " + rec)
    for td, t in tu.typedefs.items():
        if t in names:
            names.add(td)
    return frozenset(n + " *" for n in names)


def entry_points(tu):
    """Functions referenced from global initialisers (method tables, slots)."""
    out = set()
    for g in tu.globals.values():
        for n in g.walk():
            if n.k == "DeclRefExpr" and n.rk == "FunctionDecl" and n.n in tu.funcs:
                out.add(n.n)
    return out


def state_loaders(tu):
    """C functions installed as `__setstate__` in a method table"""
    cached = getattr(tu, "_state_loaders", None)
    if cached is None:
        from .. import ctables
        cached = set(fn for (_t, pyname), fn in ctables.py_methods(tu).items() if pyname == "__setstate__")
        tu._state_loaders = cached
    return cached


def is_lifecycle(name):
    return name.endswith(LIFECYCLE_SUFFIXES)


class PinAnalysis(Analysis):
    def __init__(self, cfg, tu, ctx):
        Analysis.__init__(self, cfg, tu)
        self.ctx = ctx                      # shared: ptypes, summaries, entry set
        self.ptypes = ctx["ptypes"]
        self.name = cfg.name
        self.params = [k for k in cfg.fn.kids if k.k == "ParmVarDecl"]
        self.reports = []                   # (rule, node, st, pathstr, detail)
        self.touched_unpinned_params = set()
        self.released_params = set()
        self.owner_candidates = []          # releases of a parameter's pin this frame did not take
        self.consumes = set()               # parameters whose (caller's) pin is released on every path
        self.returns_pinned = False         # every non-failure return hands back the node it pinned
        self._seen_reports = set()
        self.fresh_arrays = self._fresh_arrays()

    # -- objects ----------------------------------------------------------------
    def initial(self):
        st = frozenset()
        needs = self.ctx["needs"].get(self.name, set())
        for p in self.params:
            if p.n is None:
                continue
            oid = "p:%s@0" % p.n
            st = sset(st, "a:" + p.n, oid)
            if p.n in needs and not (self.name in self.ctx["entries"]):
                st = sset(st, "o:" + oid, (False, "E"))
        return st

    def _version(self, st, root):
        return sget(st, "v:" + root, 0)

    def const_call(self, call, st=None):
        c = callee(call)
        if c[0] == "fn":
            return self.ctx["const_ret"].get(c[1])
        return None

    def _fresh_arrays(self):
        """Local arrays all of whose element stores are fresh objects/NULL."""
        arrays = set(n for n, t in self.locals.items() if "[" in (t or ""))
        bad = set()
        for x in self.cfg.fn.walk():
            if x.k == "BinaryOperator" and x.v == "=":
                l0 = strip(x.kids[0])
                if l0 is not None and l0.k == "ArraySubscriptExpr":
                    b = strip(l0.kids[0])
                    if b is not None and b.k == "DeclRefExpr" and b.n in arrays:
                        r0 = strip(x.kids[1])
                        ok = const_int(r0) == 0
                        if r0 is not None and r0.k == "CallExpr":
                            c = callee(r0)
                            ok = c[0] == "fn" and c[1] in FRESH_CALLS
                        if not ok:
                            bad.add(b.n)
            elif x.k == "UnaryOperator" and x.v == "&":
                b = strip(x.kids[0])
                while b is not None and b.k == "ArraySubscriptExpr":
                    b = strip(b.kids[0])
                if b is not None and b.k == "DeclRefExpr" and b.n in arrays:
                    bad.add(b.n)
        return arrays - bad

    def uniq(self, st, oid):
        """Make `oid` available for a new object: an older object of the same
        name (previous loop iteration) is renamed, or dropped when dead."""
        used = any((k.startswith("a:") and v == oid) or k == "o:" + oid for k, v in st)
        if not used:
            return st
        old = oid + "'"
        if len(old) - len(oid.rstrip("'")) > 4:
            raise AnalysisError("object naming did not converge in %s" % self.name)
        st = self.uniq(st, old)
        out = []
        for k, v in st:
            if k.startswith("a:") and v == oid:
                v = old
            elif k == "o:" + oid:
                k = "o:" + old
            out.append((k, v))
        return frozenset(out)

    def gc(self, st):
        refd = set(v for k, v in st if k.startswith("a:"))
        out = []
        for k, v in st:
            if k.startswith("o:"):
                if v == (False, "U"):
                    continue
                if not v[0] and k[2:] not in refd:
                    continue
            out.append((k, v))
        return frozenset(out)

    def _root(self, p):
        for i, ch in enumerate(p):
            if ch in "-.[":
                return p[:i]
        return p

    def objid(self, st, e, create=True):
        """(state, objid) for the object denoted by expression e."""
        p = path(e)
        if p is None:
            return st, None
        p = p.lstrip("*&") if p.startswith(("*", "&")) else p
        oid = sget(st, "a:" + p)
        if oid is None:
            if not create:
                return st, None
            root = self._root(p)
            oid = "p:%s@%s" % (p, self._version(st, root))
            st = self.uniq(st, oid)
            st = sset(st, "a:" + p, oid)
            if root in self.fresh_arrays and p != root:
                st = sset(st, "o:" + oid, (False, "F"))
        return st, oid

    def ostate(self, st, oid):
        return sget(st, "o:" + oid, (False, "U"))

    def kill(self, st, p, node):
        """Variable / lvalue p is overwritten: forget paths built on it."""
        out = []
        for k, v in st:
            if k.startswith("a:"):
                q = k[2:]
                if q == p or (q.startswith(p) and q[len(p):len(p) + 1] in ("-", ".", "[")):
                    continue
            out.append((k, v))
        st = frozenset(out)
        if "-" not in p and "." not in p and "[" not in p:
            st = sset(st, "v:" + p, node.id)
        return st

    # -- reporting ----------------------------------------------------------------
    def report(self, rule, node, st, what, detail):
        key = (rule, node.id, what)
        if key in self._seen_reports:
            return
        self._seen_reports.add(key)
        self.reports.append((rule, node, st, what, detail))

    # -- events -------------------------------------------------------------------
    def _is_ptype(self, t):
        return t is not None and t in self.ptypes

    def _touch(self, node, st, m):
        """m: MemberExpr `X->field` on a persistent struct."""
        base = m.kids[0]
        st, oid = self.objid(st, base)
        if oid is None:
            return st
        held, s = self.ostate(st, oid)
        if s not in OK_STRENGTH:
            if is_lifecycle(self.name):
                return st
            pname = oid[2:].split("@")[0]
            if held:
                self.report("GHOST-READ", node, st, "%s->%s" % (path(base), m.n),
                            "field %s of %s read/written after the pin this "
                            "function took was dropped by a callee that "
                            "activates and releases the same object itself "
                            "(the sticky state is not a counter) and Python "
                            "code may have run since" % (m.n, path(base)))
                return st
            if oid.endswith("@0") and pname in [p.n for p in self.params] \
                    and self.name not in self.ctx["entries"]:
                self.touched_unpinned_params.add(pname)
                return st
            self.report("GHOST-READ", node, st, "%s->%s" % (path(base), m.n),
                        "field %s of %s read/written while it may be a ghost "
                        "(no activation on this path)" % (m.n, path(base)))
        return st

    def _degrade(self, st):
        out = []
        for k, v in st:
            if k.startswith("o:") and v[1] == "W":
                v = (v[0], "U")
            out.append((k, v))
        return frozenset(out)

    def _call(self, node, st, call):
        c = callee(call)
        args = call.kids[1:]
        if c[0] == "fn" and c[1] in self.tu.funcs:
            g = c[1]
            gparams = self.ctx["params"].get(g, [])
            needs = self.ctx["needs"].get(g, set())
            for i, a in enumerate(args):
                if i >= len(gparams):
                    break
                pn = gparams[i]
                if pn in needs:
                    st, oid = self.objid(st, a)
                    if oid is None:
                        continue
                    held, s = self.ostate(st, oid)
                    if s not in OK_STRENGTH:
                        if is_lifecycle(self.name):
                            continue
                        pname = oid[2:].split("@")[0]
                        if oid.endswith("@0") and pname in [p.n for p in self.params] \
                                and self.name not in self.ctx["entries"]:
                            self.touched_unpinned_params.add(pname)
                            continue
                        self.report("GHOST-READ", node, st,
                                    "%s(%s)" % (g, path(a)),
                                    "%s passed to %s, which reads its fields "
                                    "without activating it, while it may be a "
                                    "ghost" % (path(a), g))
            if g in self.ctx["runs_py"]:
                st = self._degrade(st)
            # the callee brackets one of its parameters itself (activate ...
            # release): the sticky bit is not a counter, so its release also
            # drops the pin this frame holds on the same object.  The object
            # stays valid until Python code runs again (strength W); Python
            # run by the callee *inside* its own bracket is harmless, which is
            # the order assumed here (release is the callee's last act).
            # the callee gives up the pin its caller holds on this argument
            for i, a in enumerate(args):
                if i >= len(gparams) or gparams[i] not in self.ctx.get("consumes", {}).get(g, set()):
                    continue
                st, oid = self.objid(st, a, create=False)
                held, s = self.ostate(st, oid) if oid is not None else (False, "U")
                if oid is None or not held:
                    if not is_lifecycle(self.name):
                        self.report("PIN-OWNER", node, st, "%s(%s)" % (g, path(a)),
                                    "%s releases the pin on %s, which this function does not hold "
                                    "on this path" % (g, path(a)))
                    continue
                st = sset(st, "o:" + oid, (False, "W" if s in ("P", "W", "E", "F", "N") else s))
            rels = self.ctx.get("releases", {}).get(g, set())
            for i, a in enumerate(args):
                if i >= len(gparams) or gparams[i] not in rels:
                    continue
                st, oid = self.objid(st, a, create=False)
                if oid is None:
                    continue
                held, s = self.ostate(st, oid)
                if s == "P":
                    st = sset(st, "o:" + oid, (held, "W"))
        elif c[0] == "fn":
            if c[1] in MAY_RUN_PY:
                st = self._degrade(st)
        elif c[0] == "capi":
            if c[1] == "setstate":
                st = self._degrade(st)
        else:
            # call through a function pointer: assume it may run Python
            st = self._degrade(st)
        # address of a tracked variable escapes -> T
        for a in args:
            a0 = strip(a)
            if a0 is not None and a0.k == "UnaryOperator" and a0.v == "&":
                b = strip(a0.kids[0])
                if b is not None and b.k == "DeclRefExpr" and \
                        self._is_ptype(self.locals.get(b.n)):
                    st = self.kill(st, b.n, node)
                    oid = "t:%s@%d" % (b.n, node.id)
                    st = self.uniq(st, oid)
                    st = sset(st, "a:" + b.n, oid)
                    st = sset(st, "o:" + oid, (False, "T"))
        return st

    def _assign(self, node, st, lhs, rhs):
        lp = path(lhs)
        if lp is None:
            return st
        l0 = strip(lhs)
        # only pointer-valued lvalues matter
        if not (l0.t or "").rstrip().endswith("*"):
            # a scalar index variable changing invalidates paths using it
            # (e.g. self->data[i].child after i++): forget those
            if l0.k == "DeclRefExpr":
                out = []
                tag = "[" + lp + "]"
                for k, v in st:
                    if k.startswith("a:") and tag in k:
                        continue
                    out.append((k, v))
                st = frozenset(out)
            return st
        roid = None
        r0 = strip(rhs) if rhs is not None else None
        if r0 is not None:
            if r0.k == "CallExpr":
                c = callee(r0)
                if c[0] == "fn" and c[1] in FRESH_CALLS:
                    roid = "n:%d" % node.id
                    st = self.uniq(st, roid)
                    st = sset(st, "o:" + roid, (False, "F"))
                elif c[0] == "fn" and c[1] in self.ctx.get("ret_pinned", ()) and l0.k == "DeclRefExpr":
                    # the helper hands back the node it activated and pinned - or NULL
                    roid = "r:%s@%d" % (lp, node.id)
                    st = self.uniq(st, roid)
                    st = sset(st, "o:" + roid, (True, "P"))
                    st = sset(st, "np:" + lp, roid)
            elif r0.k == "ConditionalOperator":
                roid = None
            else:
                st, roid = self.objid(st, r0)
        st = self.kill(st, lp, node)
        if roid is not None:
            st = sset(st, "a:" + lp, roid)
        else:
            oid = "u:%s@%d" % (lp, node.id)
            st = self.uniq(st, oid)
            st = sset(st, "a:" + lp, oid)
        return st

    def on_node(self, node, st):
        e = node.e
        if e is None:
            return [st]
        if node.unit is not None:
            kind, x = node.unit
            if kind in ("REL", "PIN"):
                st, oid = self.objid(st, x)
                if oid is not None:
                    held, s = self.ostate(st, oid)
                    if kind == "PIN":
                        # PER_PREVENT_DEACTIVATION pins an up-to-date object; it does not
                        # load a ghost: the fields are readable only if they already were
                        # (except in the __setstate__ slot functions: loading the state is their job)
                        st = sset(st, "o:" + oid, (True, "P" if (s in OK_STRENGTH or self.name in state_loaders(self.tu))
                                                   else s))
                    else:
                        pname = oid[2:].split("@")[0]
                        is_param = oid.startswith("p:") and oid.endswith("@0") and \
                            pname in [p.n for p in self.params]
                        if not held and s != "T" and not is_lifecycle(self.name):
                            what, detail = path(x), ("release of %s, which this function did "
                                                     "not pin on this path" % path(x))
                            if is_param and self.name not in self.ctx["entries"] and sget(st, "rl:" + pname) is None:
                                # perhaps the contract of this helper: it gives up its caller's
                                # pin on every path (decided at the exits)
                                self.owner_candidates.append((node, st, what, detail, pname))
                                st = sset(st, "rl:" + pname, node.id)
                            else:
                                self.report("PIN-OWNER", node, st, what, detail)
                        st = sset(st, "o:" + oid, (False, "W" if s in ("P", "W", "E", "F", "N") else s))
                        if oid.startswith("p:") and oid.endswith("@0") and \
                                pname in [p.n for p in self.params]:
                            self.released_params.add(pname)
                return [st]
            if kind == "ACQ":
                # effects are applied on the edges
                return [st]
        # generic walk in post-order
        st = self._walk(node, st, e)
        return [self.gc(st)]

    def _walk(self, node, st, e):
        k = e.k
        if k == "DeclStmt":
            for v in e.kids:
                if v.k == "VarDecl":
                    init = [c for c in v.kids if c.k != "Absent"]
                    if init:
                        st = self._walk(node, st, init[-1])
                        ref = _mkref(v)
                        st = self._assign(node, st, ref, init[-1])
            return st
        if k == "BinaryOperator" and e.v == "=":
            st = self._walk(node, st, e.kids[1])
            # lhs sub-expressions (base of member etc.)
            st = self._walk_lhs(node, st, e.kids[0])
            return self._assign(node, st, e.kids[0], e.kids[1])
        if k == "UnaryOperator" and e.v in ("++", "--", "post++", "post--"):
            st = self._walk(node, st, e.kids[0])
            return self._assign(node, st, e.kids[0], None)
        if k == "CompoundAssignOperator":
            st = self._walk(node, st, e.kids[1])
            st = self._walk(node, st, e.kids[0])
            return self._assign(node, st, e.kids[0], None)
        if k == "CallExpr":
            for a in e.kids[1:]:
                st = self._walk(node, st, a)
            st = self._walk(node, st, e.kids[0])
            return self._call(node, st, e)
        if k == "UnaryOperator" and e.v == "&":
            # &X->field : address computation, not an access
            inner = strip(e.kids[0])
            if inner is not None and inner.k == "MemberExpr":
                return self._walk(node, st, inner.kids[0])
            return self._walk(node, st, e.kids[0])
        if k == "UnaryExprOrTypeTraitExpr":
            return st
        if k == "MemberExpr":
            st = self._walk(node, st, e.kids[0])
            if e.v == "->" and e.n in DATA_FIELDS and self._is_ptype(e.kids[0].t):
                st = self._touch(node, st, e)
            return st
        for c in e.kids:
            st = self._walk(node, st, c)
        return st

    def _walk_lhs(self, node, st, lhs):
        l0 = strip(lhs)
        if l0 is None:
            return st
        if l0.k == "MemberExpr":
            st = self._walk(node, st, l0.kids[0])
            if l0.v == "->" and l0.n in DATA_FIELDS and self._is_ptype(l0.kids[0].t):
                st = self._touch(node, st, l0)
            return st
        if l0.k == "ArraySubscriptExpr":
            st = self._walk(node, st, l0.kids[0])
            return self._walk(node, st, l0.kids[1])
        if l0.k == "UnaryOperator" and l0.v == "*":
            return self._walk(node, st, l0.kids[0])
        return st

    def on_edge(self, node, label, st):
        if node.unit is not None and node.unit[0] == "ACQ":
            x = node.unit[1]
            st, oid = self.objid(st, x)
            if oid is None:
                return st
            if label == "T":
                held, s = self.ostate(st, oid)
                st = sset(st, "o:" + oid, (True, "P"))
                x0 = strip(x)
                if x0 is not None and x0.k == "DeclRefExpr" and self.is_flag_var(x0.n):
                    st = sset(st, "f:" + x0.n, "NN")
                # loading it may have run Python
                out = []
                for k, v in st:
                    if k.startswith("o:") and v[1] == "W" and k != "o:" + oid:
                        v = (v[0], "U")
                    out.append((k, v))
                return frozenset(out)
            return st
        for k, v in list(st):
            if k.startswith("np:"):
                var = k[3:]
                fv = sget(st, "f:" + var)
                if fv == 0:                  # the helper failed: nothing is pinned
                    if sget(st, "a:" + var) == v:
                        st = sset(st, "o:" + v, (False, "U"))
                    st = sdel(st, k)
                elif fv is not None:
                    st = sdel(st, k)
        if label in ("T", "F") and node.e is not None:
            sc = state_cmp(node.e)
            if sc is not None:
                x, op, c = sc
                nonghost = (c == -1 and ((op == "!=" and label == "T") or
                                         (op == "==" and label == "F"))) or \
                           (c in (0, 1, 2) and ((op == "==" and label == "T") or
                                                (op == "!=" and label == "F")))
                if nonghost:
                    st, oid = self.objid(st, x)
                    if oid is not None:
                        held, s = self.ostate(st, oid)
                        if s == "U":
                            st = sset(st, "o:" + oid, (held, "N"))
        return st

    # -- exits ----------------------------------------------------------------
    def check_exits(self):
        helper = self.name not in self.ctx["entries"] and not is_lifecycle(self.name)
        exits = [(n, st) for n in self.cfg.returns() for st in self.IN.get(n.id, ())]
        # (1) does this helper give up its caller's pin on a parameter on every path?
        cand = set(c[4] for c in self.owner_candidates)
        for pname in sorted(cand):
            if helper and exits and all(sget(st, "rl:" + pname) is not None for _n, st in exits):
                self.consumes.add(pname)
            else:
                for node, st0, what, detail, pn in self.owner_candidates:
                    if pn == pname:
                        self.report("PIN-OWNER", node, st0, what, detail)
        # (2) does it hand back the node it pinned (or fail with nothing pinned)?
        handed = 0
        consistent = helper and (self.cfg.fn.t or "").split("(")[0].strip().endswith("*")
        leaks = []
        for n, st in exits:
            held = [k[2:] for k, v in st if k.startswith("o:") and v[0]]
            if not held:
                continue
            roid = None
            if n.e is not None:
                rp = path(n.e)
                roid = sget(st, "a:" + rp) if rp else None
            if consistent and len(held) == 1 and roid == held[0]:
                handed += 1
            else:
                for oid in held:
                    leaks.append((n, st, oid))
        if consistent and handed and not leaks:
            # failure returns must be NULL: a non-NULL return without a pin would
            # break the caller's assumption
            for n, st in exits:
                held = [k for k, v in st if k.startswith("o:") and v[0]]
                if not held and not (n.e is not None and const_int(n.e) == 0):
                    consistent = False
            if consistent:
                self.returns_pinned = True
                return
        for n, st in exits:
            for k, v in st:
                if k.startswith("o:") and v[0]:
                    oid = k[2:]
                    nm = oid[2:].split("@")[0] if oid[1] == ":" else oid
                    self.report("PIN-LEAK", n, st, nm,
                                "returns with %s still pinned (activated "
                                "and pinned earlier on this path, never "
                                "released)" % nm)


def _mkref(v):
    """A DeclRefExpr-like node for a VarDecl (so _assign can take its path)."""
    from ..cfront import N
    r = N()
    r.k = "DeclRefExpr"
    r.n = v.n
    r.t = v.t
    r.rk = "VarDecl"
    r.f, r.l, r.c = v.f, v.l, v.c
    return r


def runs_python(tu):
    """Functions that may (transitively) run arbitrary Python code."""
    direct = {}
    calls = {}
    for name, fn in tu.funcs.items():
        d = False
        cs = set()
        for n in fn.walk():
            if n.k == "CallExpr":
                c = callee(n)
                if c[0] == "fn":
                    if c[1] in tu.funcs:
                        cs.add(c[1])
                    elif c[1] in MAY_RUN_PY:
                        d = True
                elif c[0] == "capi":
                    if c[1] == "setstate":
                        d = True
                else:
                    d = True
        direct[name] = d
        calls[name] = cs
    out = set(n for n, d in direct.items() if d)
    changed = True
    while changed:
        changed = False
        for n, cs in calls.items():
            if n not in out and cs & out:
                out.add(n)
                changed = True
    return out


def const_returns(tu):
    """{function: c} when every return statement returns the integer constant c."""
    out = {}
    for name, fn in tu.funcs.items():
        vals = set()
        for n in fn.walk():
            if n.k == "ReturnStmt":
                vals.add(const_int(n.kids[0]) if n.kids else "void")
        if len(vals) == 1:
            v = vals.pop()
            if isinstance(v, int) and fn.t and not fn.t.startswith(("void", "PyObject")) \
                    and "*" not in fn.t.split("(")[0]:
                out[name] = v
    return out


def analyse_tu(tu):
    """Run the pin typestate over every function of a TU.

    Returns dict(findings=[...], stats={...})."""
    ptypes = persistent_types(tu)
    if not ptypes:
        raise AnalysisError("no persistent struct types found in %s" % tu.stub)
    ctx = {
        "ptypes": ptypes,
        "entries": entry_points(tu),
        "needs": {},
        "params": {name: [k.n for k in fn.kids if k.k == "ParmVarDecl"]
                   for name, fn in tu.funcs.items()},
        "runs_py": runs_python(tu),
        "const_ret": const_returns(tu),
    }
    cfgs = {name: CFG(tu.funcs[name]) for name in tu.order}
    # which functions release (a pin on) the object one of their own
    # parameters denotes on entry: filled in by the fixpoint below
    ctx["releases"] = {}
    # pins handed across a call: helpers that give up their caller's pin on a
    # parameter on every path, helpers that return the node they pinned (or NULL)
    ctx["consumes"] = {}
    ctx["ret_pinned"] = set()
    # fixpoint on needs-pinned summaries
    for _round in range(12):
        changed = False
        results = {}
        for name in tu.order:
            an = PinAnalysis(cfgs[name], tu, ctx)
            an.solve()
            an.check_exits()
            results[name] = an
            new = an.touched_unpinned_params
            old = ctx["needs"].get(name, set())
            if not new <= old:
                ctx["needs"][name] = old | new
                changed = True
            newr = an.released_params
            oldr = ctx["releases"].get(name, set())
            if not newr <= oldr:
                ctx["releases"][name] = oldr | newr
                changed = True
            if an.consumes != ctx["consumes"].get(name, set()):
                ctx["consumes"][name] = set(an.consumes)
                changed = True
            if an.returns_pinned != (name in ctx["ret_pinned"]):
                (ctx["ret_pinned"].add if an.returns_pinned else ctx["ret_pinned"].discard)(name)
                changed = True
        if not changed:
            break
    else:
        raise AnalysisError("needs-pinned summaries did not converge")
    findings = []
    stats = {"functions": 0, "acq": 0, "rel": 0, "pin": 0, "returns": 0,
             "touches": 0, "entries": len(ctx["entries"]),
             "needs_pinned": sum(len(v) for v in ctx["needs"].values()),
             "lifecycle_with_test": 0, "lifecycle": 0}
    for name in tu.order:
        an = results[name]
        g = cfgs[name]
        stats["functions"] += 1
        for n in g.live_nodes():
            if n.unit:
                stats[{"ACQ": "acq", "REL": "rel", "PIN": "pin"}[n.unit[0]]] += 1
            if n.kind == "return":
                stats["returns"] += 1
        for n in tu.funcs[name].walk():
            if n.k == "MemberExpr" and n.v == "->" and n.n in DATA_FIELDS and \
                    n.kids[0].t in ptypes:
                stats["touches"] += 1
        if is_lifecycle(name) and name in ctx["entries"] and tu.params(name) \
                and tu.params(name)[0].t in ptypes:
            stats["lifecycle"] += 1
            has_test = any(state_cmp(n) is not None for n in tu.funcs[name].walk()
                           if n.k == "BinaryOperator")
            if has_test:
                stats["lifecycle_with_test"] += 1
            else:
                findings.append(dict(
                    rule="GHOST-READ", function=name, file=tu.funcs[name].f,
                    line=tu.funcs[name].l, construct="lifecycle-ghost-test",
                    detail="lifecycle slot %s no longer tests the ghost state "
                           "before touching raw fields" % name, path=[]))
        for rule, node, st, what, detail in an.reports:
            wnodes = an.witness(node, st)
            wl = witness_lines(wnodes)
            guard = ""
            for i in range(len(wnodes) - 2, -1, -1):
                b = wnodes[i]
                if b.kind == "branch" and b.e is not None and b.unit is None:
                    lab = [l for l, s2 in b.succ if s2 is wnodes[i + 1]]
                    guard = " after %s%s" % ("" if "T" in lab else "!", text(b.e)[:80])
                    break
            if rule == "PIN-LEAK":
                what = "%s pinned at return %s%s" % (
                    what, text(node.e)[:40] if node.e is not None else "", guard)
            elif rule == "GHOST-READ":
                what = "%s in %s" % (what, text(node.e)[:80] if node.e is not None else "")
            findings.append(dict(
                rule=rule, function=name, file=(node.where.split(":")[0]),
                line=node.line, construct=what, detail=detail, path=wl,
                stmt=text(node.e)[:160] if node.e is not None else ""))
    stats["needs"] = {k: sorted(v) for k, v in ctx["needs"].items() if v}
    stats["pin_transfer"] = {"consumes": {k: sorted(v) for k, v in ctx["consumes"].items() if v},
                             "returns_pinned": sorted(ctx["ret_pinned"])}
    return dict(findings=findings, stats=stats)


def ghost_reads_in(tu, roots):
    """GHOST-READ findings of the pin typestate restricted to the functions named
    in `roots`, the functions of the unit they call directly and their callers: the necessary
    condition "what this machinery computes with is read from activated nodes"
    for properties other than C05.  Returns (findings, sorted function names)."""
    fns = set(r for r in roots if r in tu.funcs)
    for r in list(fns):
        for c in tu.funcs[r].walk():
            if c.k == "CallExpr" and callee(c)[0] == "fn" and callee(c)[1] in tu.funcs:
                try:
                    tu.body(callee(c)[1])
                    fns.add(callee(c)[1])
                except AnalysisError:
                    pass
    # and their callers: a root that relies on its caller for the activation of
    # an argument is reported at the call
    roots_present = set(r for r in roots if r in tu.funcs)
    for name, fn in tu.funcs.items():
        if name not in fns and any(c.k == "CallExpr" and callee(c)[0] == "fn" and callee(c)[1] in roots_present
                                   for c in fn.walk()):
            fns.add(name)
    pr = analyse_tu(tu)
    return [f for f in pr["findings"] if f["rule"] == "GHOST-READ" and f.get("function") in fns], sorted(fns)
