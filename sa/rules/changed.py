"""Change registration (C04), C side: CHANGED-FOLLOWS with caller-marks
summaries and the first-leaf accepted idiom; EMBEDDED-LEAF atoms.

Built on the pin analysis' object naming (aliases, fresh objects): the extra
state component is  d:<objid> -> origin  for persistent objects whose
persisted fields were mutated and that have not been registered as changed
since.  Every success return of an entry point must be reached with no such
object; internal helpers export `dirties(param)` summaries to their callers.
"""
from ..cir import strip, path, callee, text, const_int
from ..cfg import CFG, capi_call
from ..flow import sget, sset, sdel, witness_lines
from ..common import AnalysisError
from .. import ctables
from . import pins
from .pins import PinAnalysis, DATA_FIELDS

PERSISTED_SCALARS = frozenset(["len", "next", "firstbucket"])
ARRAYS = frozenset(["keys", "values", "data"])
MEMFUNCS = frozenset(["memmove", "memcpy", "memset"])


class ChangeAnalysis(PinAnalysis):
    def __init__(self, cfg, tu, ctx):
        PinAnalysis.__init__(self, cfg, tu, ctx)
        self.creports = []
        self._cseen = set()
        self.dirty_params = set()
        self.param_origins = {}
        self.accepted = set()
        self.mutation_sites = set()
        self.changed_sites = set()
        fn_t = cfg.fn.t or ""
        self.ret_is_ptr = "*" in fn_t.split("(")[0]
        self.ret_is_void = fn_t.strip().startswith("void")

    # pin reports are not this rule's business
    def report(self, rule, node, st, what, detail):
        return

    def extra_uses(self, node):
        out = set()
        if node.kind == "return" and node.e is not None:
            e = strip(node.e)
            if e is not None and e.k == "DeclRefExpr" and self.is_flag_var(e.n):
                out.add(e.n)
        return out

    # ---- interior pointers: d = self->data + min ---------------------------
    def _array_owner(self, e):
        """X if e is a pointer into X->keys/values/data (no element load)."""
        e = strip(e)
        while e is not None and e.k == "BinaryOperator" and e.v in ("+", "-"):
            a = strip(e.kids[0])
            b = strip(e.kids[1])
            e = a if (a is not None and (a.t or "").rstrip().endswith("*")) else b
        if e is not None and e.k == "MemberExpr" and e.n in ARRAYS and e.v == "->" \
                and self._is_ptype(e.kids[0].t):
            return e.kids[0]
        return None

    def _owner_of_lvalue(self, st, lhs):
        """(st, objid, what) when storing to lvalue lhs mutates persisted data
        of a persistent object."""
        l0 = strip(lhs)
        if l0 is None:
            return st, None, None
        # X->len / X->next / X->firstbucket
        if l0.k == "MemberExpr" and l0.v == "->" and l0.n in PERSISTED_SCALARS \
                and self._is_ptype(l0.kids[0].t):
            st, oid = self.objid(st, l0.kids[0])
            return st, oid, "%s->%s" % (path(l0.kids[0]), l0.n)
        # peel .key/.child and [i] and * down to an array base
        e = l0
        while e is not None:
            if e.k == "MemberExpr" and e.n in ("key", "child") :
                e = strip(e.kids[0])
                continue
            if e.k == "ArraySubscriptExpr":
                e = strip(e.kids[0])
                break
            if e.k == "UnaryOperator" and e.v == "*":
                e = strip(e.kids[0])
                break
            break
        if e is None or e is l0 and l0.k not in ("ArraySubscriptExpr",):
            if not (l0.k == "MemberExpr" and l0.n in ("key", "child")):
                return st, None, None
        # e is now the array/pointer expression
        x = self._array_owner(e)
        if x is not None:
            st, oid = self.objid(st, x)
            return st, oid, text(l0)[:60]
        if e is not None and e.k == "DeclRefExpr":
            owner = sget(st, "i:" + e.n)
            if owner is not None:
                return st, owner, text(l0)[:60]
        return st, None, None

    def _mark(self, node, st, oid, what):
        if oid is None:
            return st
        held, s = self.ostate(st, oid)
        if s == "F":
            return st
        self.mutation_sites.add((node.where, what))
        if sget(st, "d:" + oid) is None:
            st = sset(st, "d:" + oid, "%s %s" % (node.where, what))
        return st

    # ---- hooks into the walk -------------------------------------------------
    def _assign(self, node, st, lhs, rhs):
        # interior pointer bookkeeping
        l0 = strip(lhs)
        if l0 is not None and l0.k == "DeclRefExpr" and (l0.t or "").rstrip().endswith("*"):
            owner = self._array_owner(rhs) if rhs is not None else None
            if owner is not None:
                st, oid = self.objid(st, owner)
                st = sset(st, "i:" + l0.n, oid)
            elif rhs is not None and sget(st, "i:" + l0.n) is not None:
                r0 = strip(rhs)
                keep = False
                # d = d + 1 keeps the owner
                if r0 is not None and r0.k == "BinaryOperator":
                    for side in r0.kids:
                        s0 = strip(side)
                        if s0 is not None and s0.k == "DeclRefExpr" and s0.n == l0.n:
                            keep = True
                if not keep:
                    st = sdel(st, "i:" + l0.n)
            # rhs None: ++/-- keeps the owner
        st, oid, what = self._owner_of_lvalue(st, lhs)
        if oid is not None:
            st = self._mark(node, st, oid, what)
        return PinAnalysis._assign(self, node, st, lhs, rhs)

    def _call(self, node, st, call):
        c = callee(call)
        args = call.kids[1:]
        if c == ("capi", "changed") and args:
            st, oid = self.objid(st, args[0])
            self.changed_sites.add(node.where)
            if oid is not None:
                st = sdel(st, "d:" + oid)
        elif c[0] == "fn" and c[1] in MEMFUNCS and args:
            dst = strip(args[0])
            x = self._array_owner(dst)
            if x is not None:
                st, oid = self.objid(st, x)
                st = self._mark(node, st, oid, "%s(%s,...)" % (c[1], text(dst)[:40]))
            else:
                d0 = dst
                while d0 is not None and d0.k == "BinaryOperator":
                    d0 = strip(d0.kids[0])
                if d0 is not None and d0.k == "DeclRefExpr":
                    owner = sget(st, "i:" + d0.n)
                    if owner is not None:
                        st = self._mark(node, st, owner, "%s(%s,...)" % (c[1], text(dst)[:40]))
        elif c[0] == "fn" and c[1] in self.tu.funcs:
            g = c[1]
            dirt = self.ctx["dirties"].get(g, set())
            gparams = self.ctx["params"].get(g, [])
            for i, a in enumerate(args):
                if i < len(gparams) and gparams[i] in dirt:
                    st, oid = self.objid(st, a)
                    if oid is not None:
                        origin = "via %s(%s)" % (g, ", ".join(text(x)[:20] for x in args))
                        held, s = self.ostate(st, oid)
                        if s != "F":
                            self.mutation_sites.add((node.where, origin))
                            if sget(st, "d:" + oid) is None:
                                st = sset(st, "d:" + oid, "%s %s" % (node.where, origin))
        return PinAnalysis._call(self, node, st, call)

    def gc(self, st):
        # keep dirty objects alive even if no name refers to them any more
        refd = set(v for k, v in st if k.startswith("a:"))
        dirty = set(k[2:] for k, v in st if k.startswith("d:"))
        out = []
        for k, v in st:
            if k.startswith("o:"):
                if v == (False, "U"):
                    continue
                if not v[0] and k[2:] not in refd and k[2:] not in dirty:
                    continue
            out.append((k, v))
        return frozenset(out)

    def uniq(self, st, oid):
        st2 = PinAnalysis.uniq(self, st, oid)
        if st2 is st:
            # PinAnalysis.uniq only looks at a:/o:, also rename d:/i: entries
            used = any((k == "d:" + oid) or (k.startswith("i:") and v == oid) for k, v in st)
            if not used:
                return st
        old = oid + "'"
        out = []
        for k, v in st2:
            if k == "d:" + oid:
                k = "d:" + old
            elif k.startswith("i:") and v == oid:
                v = old
            out.append((k, v))
        return frozenset(out)

    # ---- exits -------------------------------------------------------------------
    def _is_error_return(self, node, st):
        if node.e is None:
            return False
        v = self.flag_value_of(node.e, st)
        if v is None:
            e = strip(node.e)
            # return PER_CHANGED(self) >= 0 ? 0 : -1  and the like: may succeed
            return False
        if v == "NN":
            return False
        if self.ret_is_ptr:
            return v == 0
        return v < 0

    def check_exits(self):
        params = set(p.n for p in self.params)
        for n in self.cfg.returns():
            for st in self.IN.get(n.id, ()):
                # the return expression itself may register the change
                st2 = self.on_node(n, st)[0]
                if self._is_error_return(n, st2):
                    continue
                for k, origin in st2:
                    if not k.startswith("d:"):
                        continue
                    oid = k[2:]
                    nm = oid[2:].split("@")[0] if oid[1:2] == ":" else oid
                    is_param = oid.startswith("p:") and oid.endswith("@0") and nm in params
                    acc = [why for (fn, sub), why in ACCEPTED.items()
                           if fn == self.name and sub in origin]
                    if acc:
                        self.accepted.add((self.name, origin.split(" ", 1)[-1], acc[0]))
                        continue
                    if is_param and self.name not in self.ctx["entries"]:
                        self.dirty_params.add(nm)
                        self.param_origins.setdefault(nm, set()).add(
                            (origin, n.where, text(n.e)[:40] if n.e is not None else ""))
                        continue
                    if is_param and self.name in self.ctx["exempt"]:
                        continue
                    key = (n.id, oid, origin)
                    if key in self._cseen:
                        continue
                    self._cseen.add(key)
                    self.creports.append((n, st, nm, origin))


# ---------------------------------------------------------------------------

def loaders_and_lifecycle(tu):
    """Entry points that legitimately rewrite a node without registering:
    state loaders (__setstate__) and the lifecycle slots."""
    out = set()
    for tbl, rows in ctables.method_tables(tu).items():
        for pyname, fn in rows:
            if pyname in ("__setstate__", "_p_deactivate"):
                out.add(fn)
    for tname, slots in ctables.type_objects(tu).items():
        for s in ("tp_dealloc", "tp_clear", "tp_traverse", "tp_init"):
            v = slots.get(s)
            if v and v[0] == "fn" and s != "tp_init":
                out.add(v[1])
    return out


# helpers whose contract is "the caller registers the change"
CALLER_MARKS = frozenset([
    "BTree_grow", "BTree_split_root",          # CAUTION comments
    "_bucket_clear", "_BTree_clear",           # shared by clear/deactivate/dealloc
    "_bucket_setstate", "_set_setstate", "_BTree_setstate",   # state loading
    "bucket_split", "BTree_split",             # `next` is the fresh sibling
    "copyRemaining", "merge_output",           # write the fresh result bucket
])

# accepted idioms: (function, origin substring) -> reason
ACCEPTED = {
    ("_BTree_set", "via BTree_grow(self, 0, noval)"):
        "first-leaf creation: the new leaf has no oid and the insertion that "
        "follows always reports bucket_changed, so the embedded-leaf clause "
        "registers self (DESIGN 4.2)",
}


def analyse_tu(tu):
    ptypes = pins.persistent_types(tu)
    ctx = {
        "ptypes": ptypes,
        "entries": pins.entry_points(tu),
        "needs": {},
        "params": {name: [k.n for k in fn.kids if k.k == "ParmVarDecl"]
                   for name, fn in tu.funcs.items()},
        "runs_py": pins.runs_python(tu),
        "const_ret": pins.const_returns(tu),
        "dirties": {},
        "exempt": loaders_and_lifecycle(tu),
    }
    cfgs = {name: CFG(tu.funcs[name]) for name in tu.order}
    for _round in range(12):
        changed = False
        results = {}
        for name in tu.order:
            an = ChangeAnalysis(cfgs[name], tu, ctx)
            an.solve()
            an.check_exits()
            results[name] = an
            old = ctx["dirties"].get(name, set())
            if not an.dirty_params <= old:
                ctx["dirties"][name] = old | an.dirty_params
                changed = True
            oldn = ctx["needs"].get(name, set())
            if not an.touched_unpinned_params <= oldn:
                ctx["needs"][name] = oldn | an.touched_unpinned_params
                changed = True
        if not changed:
            break
    else:
        raise AnalysisError("dirties summaries did not converge")
    findings = []
    accepted = []
    msites, csites = set(), set()
    for name in tu.order:
        an = results[name]
        msites |= an.mutation_sites
        csites |= an.changed_sites
        for a in sorted(an.accepted):
            accepted.append({"function": a[0], "origin": a[1], "reason": a[2]})
        for node, st, nm, origin in an.creports:
            wl = witness_lines(an.witness(node, st))
            org = origin.split(" ", 1)
            findings.append(dict(
                rule="CHANGED-FOLLOWS", function=name,
                file=node.where.split(":")[0], line=node.line,
                construct="%s mutated by [%s] unregistered at return %s" % (
                    nm, org[1] if len(org) > 1 else origin,
                    text(node.e)[:40] if node.e is not None else ""),
                detail="%s is modified at %s and a success return is reached "
                       "without registering it as changed (PER_CHANGED / the "
                       "changed accumulator)" % (nm, org[0]),
                path=wl))
    # Helpers the repository itself treats as caller-must-mark (CAUTION
    # comments / state builders).  A *new* helper leaving a parameter dirty is
    # fine as long as every caller registers; if some caller does not, the
    # report is made once, at the helper, instead of cascading to every caller.
    nt = set(g for g in ctx["dirties"] if g not in CALLER_MARKS)
    if nt:
        keep, hit = [], set()
        for f in findings:
            g = None
            for cand in nt:
                if "[via %s(" % cand in f["construct"]:
                    g = cand
            if g is None:
                keep.append(f)
            else:
                hit.add(g)
        # a helper that is only dirty because of another new helper: report at
        # the innermost one (follow the chain down)
        work = list(hit)
        while work:
            g = work.pop()
            for origs in results[g].param_origins.values():
                for origin, _w, _r in origs:
                    for c in nt:
                        if "via %s(" % c in origin and c not in hit:
                            hit.add(c)
                            work.append(c)
        for g in sorted(hit):
            an = results[g]
            for prm, origs in sorted(an.param_origins.items()):
                for origin, where, rtxt in sorted(origs):
                    org = origin.split(" ", 1)
                    if any("via %s(" % c in origin for c in nt):
                        continue
                    keep.append(dict(
                        rule="CHANGED-FOLLOWS", function=g,
                        file=where.split(":")[0], line=int(where.split(":")[1]),
                        construct="%s mutated by [%s] unregistered at return %s" % (
                            prm, org[1] if len(org) > 1 else origin, rtxt),
                        detail="%s is modified at %s and %s returns success "
                               "without registering it; not every caller "
                               "registers it either" % (prm, org[0], g),
                        path=[org[0], where]))
        findings = keep
    stats = {"functions": len(tu.order), "mutation_sites": len(msites),
             "changed_calls": len(csites),
             "dirties": {k: sorted(v) for k, v in ctx["dirties"].items() if v},
             "accepted": accepted, "exempt": sorted(ctx["exempt"])}
    return dict(findings=findings, stats=stats)


# ---------------------------------------------------------------------------
# EMBEDDED-LEAF: a tree with a single, oid-less leaf stores the leaf's state
# inside its own state, so a write to that leaf must register the *tree*.

class _Neg(object):
    """negated conjunct (wrapper understood by _atom)"""
    def __init__(self, e):
        self.e = e


def _predicate_conjuncts(tu, name, depth=0):
    """Conjuncts under which a small boolean helper returns non-zero, when it
    has the shape  (if (c) return 0;)*  return <non-zero | expr>;  else None."""
    if tu is None or name not in tu.funcs or depth > 3:
        return None
    out = []
    for st in tu.body(name).kids:
        if st.k in ("DeclStmt", "NullStmt"):
            continue
        if st.k == "IfStmt" and len(st.kids) == 2:
            rets = [r for r in st.kids[1].walk() if r.k == "ReturnStmt"]
            body = st.kids[1]
            single = body if body.k == "ReturnStmt" else (
                body.kids[0] if body.k == "CompoundStmt" and len(body.kids) == 1 else None)
            if single is not None and single.k == "ReturnStmt" and single.kids and \
                    const_int(single.kids[0]) == 0 and len(rets) == 1:
                out.append(_Neg(st.kids[0]))
                continue
            return None
        if st.k == "ReturnStmt" and st.kids:
            c = const_int(st.kids[0])
            if c is not None:
                return out if c != 0 else None
            return out + _conjuncts(st.kids[0], tu, depth + 1)
        return None
    return None


def _conjuncts(e, tu=None, depth=0):
    if isinstance(e, _Neg):
        inner = strip(e.e)
        # !(a || b) == !a && !b
        if inner is not None and inner.k == "BinaryOperator" and inner.v == "||":
            return _conjuncts(_Neg(inner.kids[0]), tu, depth) + _conjuncts(_Neg(inner.kids[1]), tu, depth)
        return [e]
    e = strip(e)
    if e is not None and e.k == "BinaryOperator" and e.v == "&&":
        return _conjuncts(e.kids[0], tu, depth) + _conjuncts(e.kids[1], tu, depth)
    if e is not None and e.k == "CallExpr" and callee(e)[0] == "fn":
        sub = _predicate_conjuncts(tu, callee(e)[1], depth)
        if sub is not None:
            return sub
    return [e]


def _atom(e):
    """Normalised atom of one conjunct."""
    neg = False
    while isinstance(e, _Neg):
        neg = not neg
        e = e.e
    e = strip(e)
    if e is None:
        return "other:?"
    while e.k == "UnaryOperator" and e.v == "!":
        neg = not neg
        e = strip(e.kids[0])
    if e.k == "DeclRefExpr":
        return ("!" if neg else "") + "flag:" + e.n
    if e.k == "MemberExpr" and e.n == "oid" and neg:
        return "oid==NULL"
    if e.k == "BinaryOperator" and e.v in ("==", "!="):
        a, b = strip(e.kids[0]), strip(e.kids[1])
        eq = (e.v == "==") != neg
        if a.k == "MemberExpr" and a.n == "len" and const_int(b) is not None:
            return "len%s%d" % ("==" if eq else "!=", const_int(b))
        if a.k == "MemberExpr" and a.n == "oid" and const_int(b) == 0:
            return "oid==NULL" if eq else "oid!=NULL"
        ta, tb = text(a), text(b)
        if ta.startswith("Py_TYPE(") and tb.startswith("Py_TYPE("):
            return "child-is-leaf" if not eq else "child-is-tree"
    return "other:" + text(e)[:60]


def embedded_leaf(tu):
    """Findings + facts for the embedded-leaf clause of a TU."""
    findings = []
    facts = {}
    fn = tu.func("_BTree_set")
    # 1. the leaf delegation passes a change flag
    flagvar = None
    ncalls = 0
    for n in fn.walk():
        if n.k == "CallExpr" and callee(n) == ("fn", "_bucket_set"):
            ncalls += 1
            args = n.kids[1:]
            a5 = strip(args[5]) if len(args) > 5 else None
            if a5 is not None and a5.k == "UnaryOperator" and a5.v == "&":
                flagvar = path(a5.kids[0])
            else:
                findings.append(dict(
                    rule="EMBEDDED-LEAF", function="_BTree_set", file=n.f, line=n.l,
                    construct="_bucket_set(child, ..., changed=%s)" % (text(args[5]) if len(args) > 5 else "?"),
                    detail="the leaf mutation is delegated without a change "
                           "flag, so a tree that embeds its only leaf can "
                           "never learn that it must be registered", path=[]))
    if ncalls == 0:
        raise AnalysisError("anchor vanished: _BTree_set no longer calls _bucket_set")
    # 2. the guard of `changed = 1` that consumes the flag
    mark = None
    for n in fn.walk():
        if n.k == "IfStmt" and flagvar and any(
                x.k == "DeclRefExpr" and x.n == flagvar for x in n.kids[0].walk()):
            sets = [x for x in n.kids[1].walk()
                    if x.k == "BinaryOperator" and x.v == "=" and
                    path(x.kids[0]) == "changed" and const_int(x.kids[1]) not in (None, 0)]
            if sets:
                mark = set(_atom(c) for c in _conjuncts(n.kids[0], tu))
                facts["mark_site"] = "%s:%s" % (n.f, n.l)
    if flagvar and mark is None:
        findings.append(dict(
            rule="EMBEDDED-LEAF", function="_BTree_set", file=fn.f, line=fn.l,
            construct="no `changed = 1` consuming %s" % flagvar,
            detail="the change flag returned by the leaf is never turned "
                   "into a registration of the tree (embedded single leaf "
                   "would be modified without the tree being stored)", path=[]))
    # 3. the guard of the embedded form in getstate
    gs = tu.func("BTree_getstate")
    embed = None
    for n in gs.walk():
        if n.k == "IfStmt" and any(
                x.k == "CallExpr" and callee(x) == ("fn", "bucket_getstate")
                for x in n.kids[1].walk()):
            embed = set(_atom(c) for c in _conjuncts(n.kids[0], tu))
            facts["embed_site"] = "%s:%s" % (n.f, n.l)
    if embed is None:
        raise AnalysisError("anchor vanished: BTree_getstate has no embedded-leaf branch")
    facts["embed_atoms"] = sorted(embed)
    facts["mark_atoms"] = sorted(mark or [])
    # 4. the embedded form is sound for the root only: below the root the leaf is
    # also referenced by its predecessor's `next` (or an ancestor's firstbucket);
    # a guard made of (one child, child is a leaf, leaf has no oid) holds for an
    # interior node as well
    if embed <= {"child-is-leaf", "len==1", "oid==NULL"}:
        findings.append(dict(
            rule="EMBEDDED-LEAF", function="BTree_getstate", file=gs.f,
            line=int(facts["embed_site"].split(":")[1]),
            construct="embedded form not restricted to the root",
            detail="the single leaf is written inline under (%s) - conditions an interior "
                   "node with one child satisfies too; there the leaf is also referenced by "
                   "its predecessor's next pointer, gets an oid when that predecessor is "
                   "written later in the same commit and is stored twice: after a reload the "
                   "tree has two copies of the leaf" % ", ".join(sorted(embed)), path=[]))
    if mark is not None:
        need = set(a for a in mark if not a.startswith("flag:"))
        other = [a for a in need if a.startswith("other:")]
        missing = sorted(a for a in need if a not in embed and not a.startswith("other:"))
        if other:
            findings.append(dict(
                rule="EMBEDDED-LEAF", function="_BTree_set", file=fn.f,
                line=int(facts["mark_site"].split(":")[1]),
                construct="mark guard has extra condition %s" % other[0],
                detail="registration of the tree after a leaf change depends "
                       "on a condition that the embedding test in "
                       "BTree_getstate does not have", path=[]))
        if missing:
            findings.append(dict(
                rule="EMBEDDED-LEAF", function="BTree_getstate", file=gs.f,
                line=int(facts["embed_site"].split(":")[1]),
                construct="embed guard lacks %s" % ",".join(missing),
                detail="BTree_getstate stores the only leaf inside the tree's "
                       "own state under %s, but _BTree_set registers the "
                       "tree after a leaf change only under %s: a leaf "
                       "embedded although (%s) fails is written without its "
                       "tree being stored" % (sorted(embed), sorted(mark),
                                              ",".join(missing)), path=[]))
    return findings, facts


# ---------------------------------------------------------------------------
# CONV-BEFORE-MUT / GROW-ROLLBACK (C09, C13, C14)

CONV_MACROS = ("COPY_KEY_FROM_ARG", "COPY_VALUE_FROM_ARG")


def status_vars(fn):
    """Status variables of the conversion macros used in fn: int locals
    initialised to 1 that a COPY_*_FROM_ARG expansion assigns."""
    ones = set()
    for n in fn.walk():
        if n.k == "VarDecl" and (n.t or "").strip() == "int" and n.kids and \
                const_int(n.kids[-1]) == 1:
            ones.add(n.n)
    out = set()
    for n in fn.walk():
        if n.k == "BinaryOperator" and n.v == "=" and n.mo in CONV_MACROS:
            l0 = strip(n.kids[0])
            if l0 is not None and l0.k == "DeclRefExpr" and l0.n in ones and \
                    const_int(n.kids[1]) in (0, 1):
                out.add(l0.n)
    return out


class ConvAnalysis(ChangeAnalysis):
    """Adds: no mutation after a failed conversion, no conversion failure
    after a mutation, rollback of a first leaf grown into an empty tree."""

    def __init__(self, cfg, tu, ctx):
        ChangeAnalysis.__init__(self, cfg, tu, ctx)
        self.svars = status_vars(cfg.fn)
        self.vreports = []
        self._vseen = set()
        # conversion sites: macro invocations that can fail (one per expansion
        # line, however many status assignments the expansion contains)
        self.conv_sites = len(set(n.l for n in cfg.fn.walk() if n.k == "BinaryOperator" and
                                  n.v == "=" and n.mo in CONV_MACROS and
                                  strip(n.kids[0]) is not None and strip(n.kids[0]).k == "DeclRefExpr"
                                  and strip(n.kids[0]).n in self.svars))
        self.grow_sites = 0
        self.keyerror_sites = 0
        self.live = self._flag_liveness()

    def extra_uses(self, node):
        out = set(ChangeAnalysis.extra_uses(self, node))
        out |= getattr(self, "svars", set())
        return out

    def vreport(self, rule, node, st, what, detail):
        if (rule, node.id, what) not in self._vseen:
            self._vseen.add((rule, node.id, what))
            self.vreports.append((rule, node, st, what, detail))

    def _failed(self, st):
        return [v for v in self.svars if sget(st, "f:" + v) == 0]

    def _assign(self, node, st, lhs, rhs):
        # the conversion macro zeroes its own TARGET on failure: not a
        # container mutation in the sense of this rule
        self._in_macro = getattr(lhs, "mo", None) in CONV_MACROS and \
            const_int(rhs) == 0 if rhs is not None else False
        try:
            return ChangeAnalysis._assign(self, node, st, lhs, rhs)
        finally:
            self._in_macro = False

    def _mark(self, node, st, oid, what):
        if oid is not None and not getattr(self, "_in_macro", False):
            held, s = self.ostate(st, oid)
            bad = self._failed(st)
            if bad and s != "F":
                self.vreport("CONV-BEFORE-MUT", node, st,
                             "%s modified although conversion failed (%s == 0)" % (what, bad[0]),
                             "the container is modified on a path where the "
                             "key/value conversion has failed and not been "
                             "checked: an unrepresentable argument is stored "
                             "(truncated / zeroed) instead of being rejected")
        return ChangeAnalysis._mark(self, node, st, oid, what)

    def _call(self, node, st, call):
        c = callee(call)
        if c == ("fn", "BTree_grow") and len(call.kids) > 2 and const_int(call.kids[2]) == 0:
            self.grow_sites += 1
            st = sset(st, "g:1", node.where)
        elif c == ("fn", "_BTree_clear"):
            st = sdel(st, "g:1")
        elif c == ("fn", "PyErr_SetObject") and len(call.kids) > 1 and \
                "PyExc_KeyError" in text(call.kids[1]):
            self.keyerror_sites += 1
            for k, origin in st:
                if k.startswith("d:"):
                    held, s2 = self.ostate(st, k[2:])
                    if s2 != "F":
                        nm = k[2:][2:].split("@")[0]
                        self.vreport("KEYERROR-AFTER-MUT", node, st,
                                     "KeyError raised after %s was modified [%s]" % (
                                         nm, origin.split(" ", 1)[-1]),
                                     "a missing-key error is raised on a path "
                                     "on which the container has already "
                                     "been modified: a call that raises must "
                                     "leave the contents unchanged")
        return ChangeAnalysis._call(self, node, st, call)

    def check_exits(self):
        ChangeAnalysis.check_exits(self)
        for n in self.cfg.returns():
            for st in self.IN.get(n.id, ()):
                st2 = self.on_node(n, st)[0]
                err = self._is_error_return(n, st2)
                bad = self._failed(st2)
                if bad:
                    dirty = [(k[2:], v) for k, v in st2 if k.startswith("d:")]
                    for oid, origin in dirty:
                        held, s = self.ostate(st2, oid)
                        if s == "F":
                            continue
                        nm = oid[2:].split("@")[0] if oid[1:2] == ":" else oid
                        self.vreport("CONV-BEFORE-MUT", n, st,
                                     "%s already modified [%s] when conversion fails" % (
                                         nm, origin.split(" ", 1)[-1]),
                                     "a key/value conversion fails after %s has "
                                     "been modified (at %s): the TypeError "
                                     "leaves a partial change behind" % (nm, origin.split(" ")[0]))
                if err and sget(st2, "g:1") is not None:
                    self.vreport("GROW-ROLLBACK", n, st,
                                 "first leaf grown at %s not rolled back at return %s" % (
                                     "BTree_grow(self, 0, ...)", text(n.e)[:20] if n.e is not None else ""),
                                 "BTree_grow added an empty first bucket to an "
                                 "empty tree and the operation fails later "
                                 "without _BTree_clear: the tree keeps an empty "
                                 "leaf (bool(t) is True, _check() fails)")


def analyse_conv(tu):
    ptypes = pins.persistent_types(tu)
    ctx = {
        "ptypes": ptypes, "entries": pins.entry_points(tu), "needs": {},
        "params": {name: [k.n for k in fn.kids if k.k == "ParmVarDecl"]
                   for name, fn in tu.funcs.items()},
        "runs_py": pins.runs_python(tu), "const_ret": pins.const_returns(tu),
        "dirties": {g: {"self"} if g not in ("bucket_split", "BTree_split") else {"next"}
                    for g in CALLER_MARKS if g not in ("copyRemaining", "merge_output")},
        "exempt": set(),
    }
    findings = []
    conv_sites = grow_sites = funcs = ke_sites = 0
    for name in tu.order:
        fn = tu.funcs[name]
        has_conv = any(n.mo in CONV_MACROS for n in fn.walk() if n.k == "BinaryOperator")
        has_grow = any(n.k == "CallExpr" and callee(n) == ("fn", "BTree_grow") for n in fn.walk())
        has_ke = any(n.k == "CallExpr" and callee(n) == ("fn", "PyErr_SetObject") and
                     "PyExc_KeyError" in text(n) for n in fn.walk())
        if not (has_conv or has_grow or has_ke):
            continue
        an = ConvAnalysis(CFG(fn), tu, ctx)
        an.solve()
        an.check_exits()
        funcs += 1
        conv_sites += an.conv_sites
        grow_sites += an.grow_sites
        ke_sites += an.keyerror_sites
        for rule, node, st, what, detail in an.vreports:
            findings.append(dict(
                rule=rule, function=name, file=node.where.split(":")[0], line=node.line,
                construct=what, detail=detail, path=witness_lines(an.witness(node, st))))
    return dict(findings=findings,
                stats={"conv_functions": funcs, "conv_status_sites": conv_sites,
                       "grow_first_leaf_sites": grow_sites, "keyerror_sites": ke_sites})
