"""FINDEND-TABLE (C02): the tree-level endpoint search BTree_findRangeEnd as a
decision table, descent included.

The function walks down from the root with BTREE_SEARCH, remembers the last
place where it could still move left (`deepest_smaller`: the left sibling of
the child it entered, at the deepest level where the child index was not 0),
asks the leaf (Bucket_findRangeEnd) and repairs the two cases the leaf cannot
answer: a low end behind the leaf's last key is the first entry of the next
leaf, a high end before the leaf's first key is the last entry of the last
leaf under `deepest_smaller`.

The function body is walked by an abstract interpreter (nothing is run) for
every valuation of the atoms

  levels   the root's children are leaves (1) or interior nodes over leaves (2)
  z1, z2   the child index found at level 1 / 2 is 0
  r        result of the leaf search: -1 error, 0 no entry on this side, 1 found
  low      which end is searched
  next     the leaf has a successor

with nodes as roles (R the root, X.c[I] the child entered, X.c[I-1] its left
sibling, next(X), last(X) = BTree_lastBucket(X)).  Activations succeed,
reference counting is ignored.  The outcome - the status returned, the role
stored through `bucket`, the term stored through `offset`, and the node the
leaf search was asked on - must equal the specification for all 72 valuations.
"""
import itertools

from ..cir import strip, path, callee, const_int, text
from ..common import AnalysisError

FN = "BTree_findRangeEnd"
NOOP_MACROS = ("PER_UNUSE", "PER_USE_OR_RETURN", "PER_ALLOW_DEACTIVATION", "PER_ACCESSED",
               "Py_INCREF", "Py_DECREF", "Py_XDECREF", "Py_XINCREF", "assert",
               "PER_PREVENT_DEACTIVATION", "COPY_KEY_FROM_ARG")


class _Goto(Exception):
    def __init__(self, label):
        self.label = label


class _Break(Exception):
    pass


class _Return(Exception):
    def __init__(self, v):
        self.v = v


def _node(name):
    return ("node", name)


def _show(v):
    if isinstance(v, tuple):
        return v[1]
    return str(v)


class Walk(object):
    def __init__(self, tu, atoms):
        self.tu = tu
        self.a = atoms
        self.level = 0                # number of BTREE_SEARCH runs so far
        self.env = {}
        self.asked = None
        self.depth = 0

    # -- expressions -------------------------------------------------------------
    def truth(self, v, e=None):
        if isinstance(v, bool):
            return v
        if isinstance(v, int):
            return v != 0
        if isinstance(v, tuple):
            if v[0] == "node":
                return True
            if v[0] == "idx":
                return True               # the non-zero index
            if v[0] in ("nonzero", "data"):
                return True               # the tree is not empty
            if v[0] in ("str", "obj"):
                return True
        raise AnalysisError("FINDEND-TABLE: truth value of %s (%s)" % (_show(v), text(e)[:50] if e is not None else ""))

    def ev(self, e):
        e = strip(e)
        if e is None:
            raise AnalysisError("FINDEND-TABLE: empty expression")
        c = const_int(e)
        if c is not None and e.k != "DeclRefExpr":
            return c
        k = e.k
        if k == "StringLiteral":
            return ("str", e.v)
        if k == "DeclRefExpr":
            if e.n in self.env:
                v = self.env[e.n]
                if v is None:
                    raise AnalysisError("FINDEND-TABLE: %s read before it is set (line %s)" % (e.n, e.l))
                return v
            raise AnalysisError("FINDEND-TABLE: variable %s (line %s)" % (e.n, e.l))
        if k == "UnaryOperator":
            if e.v == "!":
                return int(not self.truth(self.ev(e.kids[0]), e))
            if e.v == "*":
                p = path(e.kids[0])
                if p is not None and ("*" + p) in self.env:
                    return self.env["*" + p]
            if e.v == "-":
                v = self.ev(e.kids[0])
                if isinstance(v, int):
                    return -v
            if e.v == "&":
                p = path(e.kids[0])
                if p is not None:
                    return ("addr", p)
        if k == "MemberExpr":
            return self.member(e)
        if k == "ArraySubscriptExpr":
            base = self.ev(e.kids[0])
            idx = self.ev(e.kids[1])
            if isinstance(base, tuple) and base[0] == "data":
                return ("item", base[1], idx)
        if k == "ConditionalOperator" and len(e.kids) == 3:
            return self.ev(e.kids[1] if self.truth(self.ev(e.kids[0]), e) else e.kids[2])
        if k == "BinaryOperator":
            return self.binop(e)
        if k == "CallExpr":
            return self.call(e)
        raise AnalysisError("FINDEND-TABLE: expression %s at line %s" % (text(e)[:60], e.l))

    def member(self, e):
        base = self.ev(e.kids[0])
        n = e.n
        if isinstance(base, tuple) and base[0] == "node":
            if n == "data":
                return ("data", base[1])
            if n == "len":
                return ("nonzero", "len(%s)" % base[1])
            if n == "next":
                if base[1] != self.leaf_role():
                    raise AnalysisError("FINDEND-TABLE: successor of %s" % base[1])
                return _node("next(%s)" % base[1]) if self.a["next"] else 0
            if n == "firstbucket":
                return _node("first(%s)" % base[1])
        if isinstance(base, tuple) and base[0] == "item" and n == "child":
            idx = base[2]
            if isinstance(idx, int):
                return _node("%s.c[%d]" % (base[1], idx))
            if isinstance(idx, tuple) and idx[0] == "idx":
                return _node("%s.c[I]" % base[1])
            if isinstance(idx, tuple) and idx[0] == "idxm1":
                return _node("%s.c[I-1]" % base[1])
        raise AnalysisError("FINDEND-TABLE: member %s of %s at line %s" % (n, _show(base), e.l))

    def leaf_role(self):
        r = "R"
        for lv in range(1, self.a["levels"] + 1):
            r = "%s.c[%s]" % (r, "0" if self.a["z%d" % lv] else "I")
        return r

    def binop(self, e):
        op = e.v
        if op == "=":
            v = self.ev(e.kids[1])
            self.store(e.kids[0], v)
            return v
        if op == ",":
            self.ev(e.kids[0])
            return self.ev(e.kids[1])
        if op == "&&":
            return int(self.truth(self.ev(e.kids[0]), e) and self.truth(self.ev(e.kids[1]), e))
        if op == "||":
            return int(self.truth(self.ev(e.kids[0]), e) or self.truth(self.ev(e.kids[1]), e))
        t = text(e)
        if op in ("==", "!=") and "ob_type" in t or op in ("==", "!=") and "Py_TYPE" in t:
            # SameType_Check(self, child): the child is an interior node
            same = self.level < self.a["levels"]
            return int(same == (op == "=="))
        a, b = self.ev(e.kids[0]), self.ev(e.kids[1])
        if op in ("==", "!=") and (isinstance(a, tuple) or isinstance(b, tuple)):
            if isinstance(a, tuple) and a[0] in ("node", "data", "param", "obj", "str") and b == 0:
                return int(op == "!=")
            if isinstance(b, tuple) and b[0] in ("node", "data", "param", "obj", "str") and a == 0:
                return int(op == "!=")
            if isinstance(a, tuple) and isinstance(b, tuple) and a[0] == b[0] == "node":
                return int((a == b) == (op == "=="))
        if isinstance(a, tuple) and a[0] == "idx" and isinstance(b, int):
            # the non-zero child index: i >= 1
            if op == "-" and b == 1:
                return ("idxm1", a[1])
            if op in (">", "!=") and b == 0:
                return 1
            if op in ("==", "<=", "<") and b == 0:
                return 0
            if op == ">=" and b in (0, 1):
                return 1
        if isinstance(a, tuple) and a[0] == "nonzero" and isinstance(b, int):
            if op == "-":
                return ("sym", "%s%+d" % (a[1], -b)) if b else a
            if op in (">", "!=") and b == 0:
                return 1
            if op in ("==", "<=", "<") and b == 0:
                return 0
        if isinstance(a, int) and isinstance(b, int):
            return {"+": a + b, "-": a - b, "<": int(a < b), ">": int(a > b), "<=": int(a <= b),
                    ">=": int(a >= b), "==": int(a == b), "!=": int(a != b)}.get(op, None) \
                if op in ("+", "-", "<", ">", "<=", ">=", "==", "!=") else self._bad(e)
        return self._bad(e)

    def _bad(self, e):
        raise AnalysisError("FINDEND-TABLE: expression %s at line %s" % (text(e)[:60], e.l))

    def store(self, lhs, v):
        l = strip(lhs)
        if l.k == "DeclRefExpr":
            self.env[l.n] = v
            return
        if l.k == "UnaryOperator" and l.v == "*":
            p = path(l.kids[0])
            if p is not None:
                self.env["*" + p] = v
                return
        raise AnalysisError("FINDEND-TABLE: store to %s at line %s" % (text(l)[:40], l.l))

    def call(self, e):
        c = callee(e)
        name = c[1] if c[0] == "fn" else None
        args = e.kids[1:]
        if name == "Bucket_findRangeEnd":
            b = self.ev(args[0])
            if not (isinstance(b, tuple) and b[0] == "node"):
                raise AnalysisError("FINDEND-TABLE: leaf search on %s" % _show(b))
            self.asked = b[1]
            if self.ev(args[2]) != self.a["low"]:
                raise AnalysisError("FINDEND-TABLE: leaf search with another `low` than the caller's")
            if self.a["r"] > 0:
                o = self.ev(args[4])
                if isinstance(o, tuple) and o[0] == "param":
                    self.env["*" + o[1]] = ("sym", "leaf offset")
                elif isinstance(o, tuple) and o[0] == "addr":
                    self.env[o[1]] = ("sym", "leaf offset")
                else:
                    raise AnalysisError("FINDEND-TABLE: offset argument of the leaf search")
            return self.a["r"]
        if name == "BTree_lastBucket":
            b = self.ev(args[0])
            if isinstance(b, tuple) and b[0] == "node":
                return _node("last(%s)" % b[1])
        if name in ("Py_INCREF", "Py_DECREF", "_Py_INCREF", "_Py_DECREF", "Py_XDECREF", "_Py_XDECREF",
                    "Py_IncRef", "Py_DecRef", "_Py_NewRef", "Py_NewRef"):
            return self.ev(args[0]) if name.endswith("NewRef") else 0
        if name in self.tu.funcs and self.tu.body(name) is not None and self.depth < 2:
            return self.inline(name, args, e)
        raise AnalysisError("FINDEND-TABLE: call %s at line %s" % (text(e)[:50], e.l))

    def inline(self, name, args, e):
        fn = self.tu.funcs[name]
        params = [p for p in fn.kids if p.k == "ParmVarDecl"]
        if len(params) != len(args):
            raise AnalysisError("FINDEND-TABLE: call %s" % text(e)[:50])
        saved = self.env
        new = {}
        for p, a in zip(params, args):
            new[p.n] = self.ev(a)
        # out-parameters of the caller stay visible through their address
        for k2, v in saved.items():
            if k2.startswith("*"):
                new[k2] = v
        self.env = new
        self.depth += 1
        try:
            try:
                self.run_body(self.tu.body(name))
                rv = None
            except _Return as r:
                rv = r.v
            for k2, v in self.env.items():
                if k2.startswith("*"):
                    saved[k2] = v
                    # a store through a parameter that holds the address of a caller's local
                    pv = new.get(k2[1:])
                    if isinstance(pv, tuple) and pv[0] == "addr":
                        saved[pv[1]] = v
                    if isinstance(pv, tuple) and pv[0] == "param":
                        saved["*" + pv[1]] = v
        finally:
            self.env = saved
            self.depth -= 1
        return rv

    # -- statements ----------------------------------------------------------------
    def search_macro(self, s):
        """BTREE_SEARCH(i, self, key, onerror): i := the child index at this level"""
        declared = set(n.n for n in s.walk() if n.k == "VarDecl")
        targets = set()
        for n in s.walk():
            if n.k == "BinaryOperator" and n.v == "=":
                l = strip(n.kids[0])
                if l is not None and l.k == "DeclRefExpr" and l.n not in declared:
                    targets.add(l.n)
        if len(targets) != 1:
            raise AnalysisError("FINDEND-TABLE: result variable of BTREE_SEARCH (%s)" % sorted(targets))
        node = None
        for n in s.walk():
            if n.k == "MemberExpr" and n.n in ("data", "len"):
                b = strip(n.kids[0])
                if b is not None and b.k == "DeclRefExpr" and b.n in self.env:
                    node = self.env[b.n]
                    break
        self.level += 1
        if self.level > self.a["levels"]:
            raise AnalysisError("FINDEND-TABLE: the descent searches below the leaves' parent")
        want = "R" if self.level == 1 else "R.c[%s]" % ("0" if self.a["z1"] else "I")
        if not (isinstance(node, tuple) and node[0] == "node" and node[1] == want):
            raise AnalysisError("FINDEND-TABLE: level %d search runs on %s, not on %s"
                                % (self.level, _show(node) if node else "?", want))
        self.env[targets.pop()] = 0 if self.a["z%d" % self.level] else ("idx", self.level)

    def run_body(self, body):
        """top-level statements with forward gotos to top-level labels"""
        stmts = list(body.kids)
        i = 0
        while i < len(stmts):
            try:
                self.stmt(stmts[i])
                i += 1
            except _Goto as g:
                for j, s in enumerate(stmts):
                    if s.k == "LabelStmt" and s.n == g.label:
                        i = j
                        break
                else:
                    raise AnalysisError("FINDEND-TABLE: goto %s out of reach" % g.label)

    def stmt(self, s):
        k = s.k
        if s.mo in NOOP_MACROS:
            return                 # activations and conversions succeed; reference counts are ignored
        if k == "CompoundStmt":
            if s.mo == "BTREE_SEARCH":
                self.search_macro(s)
                return
            for c in s.kids:
                self.stmt(c)
            return
        if k == "DeclStmt":
            for d in s.kids:
                if d.k == "VarDecl":
                    init = [c for c in d.kids if c.k != "Absent"]
                    self.env[d.n] = self.ev(init[-1]) if init else None
            return
        if k == "IfStmt":
            ctext = text(s.kids[0])
            if "setstate(" in ctext:
                # an activation: it succeeds
                c = strip(s.kids[0])
                neg = c.k == "UnaryOperator" and c.v == "!"
                if neg:
                    if len(s.kids) > 2:
                        self.stmt(s.kids[2])
                else:
                    self.stmt(s.kids[1])
                return
            if self.truth(self.ev(s.kids[0]), s.kids[0]):
                self.stmt(s.kids[1])
            elif len(s.kids) > 2:
                self.stmt(s.kids[2])
            return
        if k == "ForStmt" or k == "WhileStmt":
            kids = s.kids
            body = kids[-1]
            cond = kids[2] if k == "ForStmt" else kids[0]
            if k == "ForStmt" and kids[0].k != "Absent":
                self.stmt(kids[0])
            for _ in range(4):
                if cond.k != "Absent" and not self.truth(self.ev(cond), cond):
                    return
                try:
                    self.stmt(body)
                except _Break:
                    return
                if k == "ForStmt" and kids[3].k != "Absent":
                    self.ev(kids[3])
            raise AnalysisError("FINDEND-TABLE: the descent does not end at the leaves")
        if k == "DoStmt":
            for _ in range(4):
                try:
                    self.stmt(s.kids[0])
                except _Break:
                    return
                if len(s.kids) < 2 or not self.truth(self.ev(s.kids[1]), s.kids[1]):
                    return
            raise AnalysisError("FINDEND-TABLE: the descent does not end at the leaves")
        if k == "BreakStmt":
            raise _Break()
        if k == "GotoStmt":
            raise _Goto(s.n)
        if k == "LabelStmt":
            for c in s.kids:
                self.stmt(c)
            return
        if k == "ReturnStmt":
            raise _Return(self.ev(s.kids[0]) if s.kids else None)
        if k == "NullStmt":
            return
        if k in ("BinaryOperator", "CallExpr", "UnaryOperator", "CompoundAssignOperator",
                 "ParenExpr", "CStyleCastExpr", "ImplicitCastExpr"):
            self.ev(s)
            return
        raise AnalysisError("FINDEND-TABLE: statement %s at line %s" % (k, s.l))


ATOMS = ("levels", "z1", "z2", "r", "low", "next")


def valuations():
    for levels, z1, z2, r, low, nx in itertools.product((1, 2), (True, False), (True, False), (-1, 0, 1), (0, 1), (0, 1)):
        if levels == 1 and not z2:
            continue              # z2 is meaningless with one level
        yield dict(levels=levels, z1=z1, z2=z2, r=r, low=low, next=nx)


def outcome(tu, atoms):
    fn = tu.funcs.get(FN)
    body = tu.body(FN)
    if fn is None or body is None:
        raise AnalysisError("anchor vanished: %s" % FN)
    w = Walk(tu, atoms)
    params = [p for p in fn.kids if p.k == "ParmVarDecl"]
    if len(params) != 6:
        raise AnalysisError("FINDEND-TABLE: signature of %s" % FN)
    names = [p.n for p in params]
    w.env[names[0]] = _node("R")
    w.env[names[1]] = ("param", names[1])
    w.env[names[2]] = atoms["low"]
    w.env[names[3]] = ("param", names[3])
    w.env[names[4]] = ("param", names[4])
    w.env[names[5]] = ("param", names[5])
    try:
        w.run_body(body)
        rv = None
    except _Return as r:
        rv = r.v
    b = w.env.get("*" + names[4])
    o = w.env.get("*" + names[5])
    return (rv, _show(b) if b is not None else None, _show(o) if o is not None else None, w.asked)


def spec(atoms):
    leaf = "R"
    for lv in range(1, atoms["levels"] + 1):
        leaf = "%s.c[%s]" % (leaf, "0" if atoms["z%d" % lv] else "I")
    r, low = atoms["r"], atoms["low"]
    if r < 0:
        return (-1, None, None, leaf)
    if r > 0:
        return (1, leaf, "leaf offset", leaf)
    if low:
        if atoms["next"]:
            return (1, "next(%s)" % leaf, "0", leaf)
        return (0, None, None, leaf)
    # high end: the last entry of the last leaf under the deepest left sibling
    parent = "R" if atoms["levels"] == 1 else "R.c[%s]" % ("0" if atoms["z1"] else "I")
    if not atoms["z%d" % atoms["levels"]]:
        sib = "%s.c[I-1]" % parent                      # a leaf
        return (1, sib, "len(%s)-1" % sib, leaf)
    if atoms["levels"] == 2 and not atoms["z1"]:
        sib = "last(R.c[I-1])"
        return (1, sib, "len(%s)-1" % sib, leaf)
    return (0, None, None, leaf)


def c_check(tu):
    findings = []
    n = 0
    fn = tu.funcs.get(FN)
    for atoms in valuations():
        n += 1
        got = outcome(tu, atoms)
        want = spec(atoms)
        # on a result <= 0 the out-parameters are not looked at
        cmp_got = got if got[0] == 1 else (got[0], None, None, got[3])
        if cmp_got != want:
            desc = "%d level(s), child index %s%s, leaf search %s, %s end, leaf %s a successor" % (
                atoms["levels"], "0" if atoms["z1"] else "> 0",
                (" then %s" % ("0" if atoms["z2"] else "> 0")) if atoms["levels"] == 2 else "",
                {-1: "fails", 0: "finds nothing on this side", 1: "finds the entry"}[atoms["r"]],
                "low" if atoms["low"] else "high", "has" if atoms["next"] else "without")
            findings.append(dict(
                rule="FINDEND-TABLE", function=FN, file=fn.f if fn is not None else "src/BTrees/BTreeTemplate.c",
                line=fn.l if fn is not None else 1,
                construct="%s: returns %s, bucket %s, offset %s, leaf searched %s (specified %s, %s, %s, %s)"
                          % ((desc,) + tuple(str(x) for x in cmp_got) + tuple(str(x) for x in want)),
                detail="the end of a range that the leaf the bound sorts into cannot supply is the "
                       "first entry of the next leaf (low end) or the last entry of the last leaf "
                       "under the deepest left sibling passed on the way down (high end): "
                       "keys(max=...) / maxKey(b) / minKey(b) otherwise miss entries or report an "
                       "empty range", path=[]))
    return dict(findings=findings, n=n)
