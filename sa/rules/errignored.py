"""ERR-IGNORED (C02): the error value of a repository function is excluded
before its result is used.

A repository function of integer type that has a `return <negative constant>`
statement reports failure through that value (with an exception pending).  A
local assigned from such a call carries "may be the error value" until a branch
edge on which no negative value satisfies the comparison with a constant
(`v < 0` false, `v >= 0` true, `v == -1` false, `(v = f()) < 0` false ...).
Until then the local may only be compared with constants, returned (the error is
propagated) or copied into another lvalue.  Reported: any other read - arithmetic
(`i += len`), an argument of a call, an index, a comparison with a non-constant -
because the computation goes on with -1 while the exception is still set (the
caller sees IndexError / SystemError in place of the real failure).
"""
from ..cir import strip, strip_parens, path, callee, const_int, text
from ..cfg import CFG
from ..flow import Analysis, sget, sset, sdel, witness_lines

INT_TYPES = ("int", "long", "Py_ssize_t")


def _expr_values(e, fn, tu, memo, depth=0):
    """set of integers the expression can have, or None when not known.
    Locals are resolved flow-insensitively through all their assignments."""
    e = strip(e)
    if e is None:
        return None
    c = const_int(e)
    if c is not None:
        return {c}
    if e.k == "BinaryOperator" and e.v in ("==", "!=", "<", ">", "<=", ">=", "&&", "||"):
        return {0, 1}
    if e.k == "UnaryOperator" and e.v == "!":
        return {0, 1}
    if e.k == "ConditionalOperator" and len(e.kids) == 3:
        a = _expr_values(e.kids[1], fn, tu, memo, depth)
        b = _expr_values(e.kids[2], fn, tu, memo, depth)
        return None if a is None or b is None else a | b
    if e.k == "CallExpr":
        c = callee(e)
        if c[0] == "fn" and c[1] in tu.funcs and depth < 3:
            return return_set(tu, c[1], memo, depth + 1)
        return None
    if e.k == "DeclRefExpr" and e.rk == "VarDecl" and depth < 6:
        out = set()
        found = False
        for n in fn.walk():
            rhs = None
            if n.k == "BinaryOperator" and n.v == "=" and path(n.kids[0]) == e.n:
                rhs = n.kids[1]
            elif n.k == "VarDecl" and n.n == e.n and n.kids and n.kids[-1].k != "Absent":
                rhs = n.kids[-1]
            elif n.k in ("CompoundAssignOperator",) and path(n.kids[0]) == e.n:
                return None
            elif n.k == "UnaryOperator" and n.v in ("++", "--", "post++", "post--", "&") and path(n.kids[0]) == e.n:
                return None
            if rhs is None:
                continue
            r = strip(rhs)
            if r is not None and r.k == "DeclRefExpr" and r.n == e.n:
                continue
            v = _expr_values(rhs, fn, tu, memo, depth + 1)
            if v is None:
                return None
            out |= v
            found = True
        return out if found else None
    return None


def return_set(tu, name, memo, depth=0):
    """set of integers the repository function can return, or None"""
    key = (tu.family, name)
    if key in memo:
        return memo[key]
    memo[key] = None            # recursion guard
    fn = tu.funcs[name]
    body = tu.body(name)
    if body is None:
        return None
    out = set()
    for n in body.walk():
        if n.k == "ReturnStmt" and n.kids:
            v = _expr_values(n.kids[0], fn, tu, memo, depth)
            if v is None:
                out = None
                break
            out |= v
    memo[key] = out
    return out


def error_functions(tu):
    """{function: negative values it may return} for the integer functions of
    the unit that report failure by a negative constant - written in a return
    statement or assigned to the local that is returned.  When the values of a
    function are not all known the negatives are (-3, -2, -1): any test that
    admits one of them does not exclude the error."""
    out = {}
    memo = {}
    for name in tu.order:
        fn = tu.funcs[name]
        if (fn.t or "").split("(")[0].strip() not in INT_TYPES:
            continue
        body = tu.body(name)
        if body is None:
            continue
        vals = return_set(tu, name, memo)
        if vals is not None:
            negs = set(v for v in vals if v < 0)
            if negs:
                out[name] = frozenset(negs)
            continue
        for n in body.walk():
            if n.k == "ReturnStmt" and n.kids:
                v = const_int(n.kids[0])
                if v is not None and v < 0:
                    out[name] = frozenset((-3, -2, -1, v))
                    break
    return out


class ErrIgnored(Analysis):
    def __init__(self, cfg, tu, errfns):
        Analysis.__init__(self, cfg, tu)
        self.errfns = errfns
        self.reports = []
        self._seen = set()
        self.sites = 0

    def on_node(self, node, st):
        e = node.e
        if e is None:
            return [st]
        skip = set()
        for n in e.walk():
            if n.k == "BinaryOperator" and n.v in ("==", "!=", "<", ">", "<=", ">="):
                a, b = strip(n.kids[0]), strip(n.kids[1])
                if a is not None and a.k == "DeclRefExpr" and const_int(n.kids[1]) is not None:
                    skip.add(id(a))
                if b is not None and b.k == "DeclRefExpr" and const_int(n.kids[0]) is not None:
                    skip.add(id(b))
            if n.k == "BinaryOperator" and n.v == "=":
                l = strip(n.kids[0])
                if l is not None and l.k == "DeclRefExpr":
                    skip.add(id(l))
                r = strip(n.kids[1])
                if r is not None and r.k == "DeclRefExpr":
                    skip.add(id(r))         # copied into another lvalue: propagation
            if n.k == "VarDecl" and n.kids and n.kids[-1].k != "Absent":
                r = strip(n.kids[-1])
                if r is not None and r.k == "DeclRefExpr":
                    skip.add(id(r))
        if node.kind == "return":
            r = strip(e)
            if r is not None and r.k == "DeclRefExpr":
                skip.add(id(r))
        for n in e.walk():
            if n.k == "DeclRefExpr" and id(n) not in skip:
                o = sget(st, "ev:" + n.n)
                if o is not None and (node.id, n.n) not in self._seen:
                    self._seen.add((node.id, n.n))
                    self.reports.append((node, st, n.n, o))
        for n in e.walk():
            lhs = rhs = None
            if n.k == "BinaryOperator" and n.v == "=":
                lhs, rhs = path(n.kids[0]), strip(n.kids[1])
            elif n.k == "VarDecl" and n.kids and n.kids[-1].k != "Absent":
                lhs, rhs = n.n, strip(n.kids[-1])
            if lhs is None:
                continue
            st = sdel(st, "ev:" + lhs)
            if rhs is not None and rhs.k == "CallExpr":
                c = callee(rhs)
                if c[0] == "fn" and c[1] in self.errfns:
                    st = sset(st, "ev:" + lhs, c[1])
                    self.sites += 1
            elif rhs is not None and rhs.k == "DeclRefExpr" and sget(st, "ev:" + rhs.n) is not None \
                    and "->" not in lhs and "." not in lhs:
                st = sset(st, "ev:" + lhs, sget(st, "ev:" + rhs.n))
        return [st]

    def on_edge(self, node, label, st):
        if label not in ("T", "F") or node.e is None:
            return st
        want = label == "T"
        e = strip_parens(node.e)
        while e is not None and e.k == "UnaryOperator" and e.v == "!":
            want = not want
            e = strip_parens(e.kids[0])
        e0 = strip(e)
        if e0 is None or e0.k != "BinaryOperator" or e0.v not in ("==", "!=", "<", ">", "<=", ">="):
            return st
        a, b, op = strip(e0.kids[0]), strip(e0.kids[1]), e0.v
        ca, cb = const_int(e0.kids[0]), const_int(e0.kids[1])
        if cb is None and ca is not None:
            a, b, cb = b, a, ca
            op = {"<": ">", ">": "<", "<=": ">=", ">=": "<="}.get(op, op)
        if cb is None or a is None:
            return st
        if a.k == "BinaryOperator" and a.v == "=":          # (v = f(..)) < 0
            a = strip(a.kids[0])
        if a is None or a.k != "DeclRefExpr" or sget(st, "ev:" + a.n) is None:
            return st

        def holds(x):
            return {"==": x == cb, "!=": x != cb, "<": x < cb, ">": x > cb,
                    "<=": x <= cb, ">=": x >= cb}[op] == want
        negs = self.errfns.get(sget(st, "ev:" + a.n)) or (-3, -2, -1)
        if not any(holds(x) for x in negs):
            st = sdel(st, "ev:" + a.n)
        return st


def analyse_tu(tu):
    errfns = error_functions(tu)
    findings = []
    sites = 0
    for name in tu.order:
        fn = tu.funcs[name]
        if name.startswith("PyInit_") or not any(
                n.k == "CallExpr" and callee(n)[0] == "fn" and callee(n)[1] in errfns for n in fn.walk()):
            continue
        an = ErrIgnored(CFG(fn), tu, errfns)
        an.solve()
        sites += an.sites
        seen = set()
        for node, st, var, origin in sorted(an.reports, key=lambda r: r[0].line):
            if (var, origin) in seen:
                continue
            seen.add((var, origin))
            findings.append(dict(
                rule="ERR-IGNORED", function=name, file=node.where.split(":")[0], line=node.line,
                construct="%s from %s used before its error value is excluded" % (var, origin),
                detail="%s returns a negative value with an exception set when it fails (a "
                       "node that cannot be activated ...); here the result is used (%s) on a "
                       "path where no comparison has excluded that value: the computation "
                       "continues with it while the exception is pending"
                       % (origin, text(node.e)[:60] if node.e is not None else "?"),
                path=witness_lines(an.witness(node, st))))
    return dict(findings=findings, stats={"error_result_sites": sites, "error_functions": len(errfns)})
