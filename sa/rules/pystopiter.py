"""PY-CURSOR-EXC (C15, Python): the lazy sequences of the Python trees report
the end of the data as IndexError, never as a stray StopIteration.

`_TreeItems` drives a generator over the leaf chain with `next(self.it)`.  A
concurrent mutation can leave that generator exhausted at any call (the leaves
it was about to visit were emptied).  Every `next(...)` in the methods of
`_TreeItems` other than `__iter__` / `__next__` must therefore sit in the body
of a `try` whose handlers catch StopIteration (or LookupError-free bare
`except`), or pass a default as second argument; otherwise `seq[i]` leaks
StopIteration - inside a generator-based caller that silently ends an unrelated
loop.
"""
import ast

from ..common import AnalysisError, SRC
from .. import pyfront

REL = SRC + "/_base.py"


def py_check(res):
    tree = pyfront.base_py()
    cls = pyfront.classes(tree).get("_TreeItems")
    if cls is None:
        raise AnalysisError("anchor vanished: class _TreeItems")
    sites = 0
    for fn in cls.body:
        if not isinstance(fn, ast.FunctionDef) or fn.name in ("__iter__", "__next__"):
            continue
        if any(isinstance(n, (ast.Yield, ast.YieldFrom)) for n in ast.walk(fn)):
            continue
        for c in ast.walk(fn):
            if not (isinstance(c, ast.Call) and isinstance(c.func, ast.Name) and c.func.id == "next"):
                continue
            sites += 1
            if len(c.args) >= 2:
                continue
            guarded = False
            p = c
            while getattr(p, "_parent", None) is not None and p is not fn:
                par = p._parent
                if isinstance(par, ast.Try) and any(p is b or any(x is p for x in ast.walk(b)) for b in par.body):
                    for h in par.handlers:
                        names = []
                        if h.type is None:
                            names = ["StopIteration"]
                        elif isinstance(h.type, ast.Name):
                            names = [h.type.id]
                        elif isinstance(h.type, ast.Tuple):
                            names = [x.id for x in h.type.elts if isinstance(x, ast.Name)]
                        if {"StopIteration", "Exception", "BaseException"} & set(names):
                            guarded = True
                p = par
            if not guarded:
                res.findings.add(dict(
                    rule="PY-CURSOR-EXC", function="_TreeItems.%s" % fn.name, file=REL, line=c.lineno,
                    construct="next() in _TreeItems.%s outside a handler for StopIteration" % fn.name,
                    detail="the generator over the leaf chain can be exhausted at any fetch when the tree "
                           "was changed since the last one; the exhaustion must come out as IndexError "
                           "(the C sequences raise IndexError / RuntimeError only)", path=[]))
    if sites < 1:
        raise AnalysisError("anchor vanished: next() calls of _TreeItems")
    res.count("PY-CURSOR-EXC", sites)
