"""Comparison exceptions (C14).

CMP-EXIT          from the error successor of every key comparison the function
                  returns its error sentinel, and the exception is not cleared
                  on the way
ITER-FINI         a SetIteration that was initialised is finalised on every exit
CMP-AFTER-COMMIT  in a tree mutator no key comparison with a live error exit is
                  executed after the child has been modified (its error exit
                  returns with a partial change: leaf changed, unlink /
                  separator work skipped)
"""
import ast

from ..cir import strip, strip_parens, path, callee, text, const_int
from ..cfg import CFG
from ..flow import Analysis, sget, sset, sdel, witness_lines
from ..common import AnalysisError, SRC
from .. import pyfront

REL = SRC + "/_base.py"


def _guard_roots(fn, expr, _depth=0):
    """what a guard depends on, with locals that have a single call-free
    definition replaced by what they were computed from: `not is_first` with
    `is_first = index == 0` depends on index, like `index > 0`"""
    roots = set()

    def visit(e, depth):
        if isinstance(e, ast.Attribute) and isinstance(e.value, ast.Name):
            roots.add("%s.%s" % (e.value.id, e.attr))
            return
        if isinstance(e, ast.Name):
            defs = [a.value for a in ast.walk(fn) if isinstance(a, ast.Assign) and len(a.targets) == 1
                    and isinstance(a.targets[0], ast.Name) and a.targets[0].id == e.id]
            if len(defs) == 1 and depth < 3 and not any(isinstance(x, ast.Call) for x in ast.walk(defs[0])):
                visit(defs[0], depth + 1)
            else:
                roots.add(e.id)
            return
        for c in ast.iter_child_nodes(e):
            visit(c, depth)
    visit(expr, 0)
    return ", ".join(sorted(roots))

CMP_MACROS = ("TEST_KEY_SET_OR", "BUCKET_SEARCH", "BTREE_SEARCH")
DESCENTS = ("_BTree_set", "_bucket_set")


def is_cmp_error_branch(node):
    if node.kind != "branch" or node.e is None:
        return False
    e = strip(node.e)
    return e is not None and e.k == "CallExpr" and callee(e) == ("fn", "PyErr_Occurred") \
        and (e.mi == "TEST_KEY_SET_OR" or e.mo in CMP_MACROS)


class CmpAnalysis(Analysis):
    def __init__(self, cfg, tu, key_is_object):
        Analysis.__init__(self, cfg, tu)
        self.key_is_object = key_is_object
        self.reports = []
        self._seen = set()
        self.cmp_sites = set()
        self.iter_sites = set()
        fn_t = cfg.fn.t or ""
        self.ret_is_ptr = "*" in fn_t.split("(")[0]
        self.ret_is_void = fn_t.strip().startswith("void")
        self.is_mutator = cfg.name == "_BTree_set"

    def extra_uses(self, node):
        out = set()
        if node.kind == "return" and node.e is not None:
            r0 = strip(node.e)
            if r0 is not None and r0.k == "DeclRefExpr" and self.is_flag_var(r0.n):
                out.add(r0.n)
        return out

    def report(self, rule, node, st, what, detail):
        if (rule, node.id, what) not in self._seen:
            self._seen.add((rule, node.id, what))
            self.reports.append((rule, node, st, what, detail))

    def _iter_var(self, a, st=None):
        a0 = strip(a)
        if a0 is not None and a0.k == "UnaryOperator" and a0.v == "&":
            b = strip(a0.kids[0])
            if b is not None and b.k == "DeclRefExpr" and "SetIteration" in (self.locals.get(b.n) or ""):
                return b.n
        if a0 is not None and a0.k == "DeclRefExpr" and st is not None:
            # a pointer local that was pointed at one of the iterations on this path
            return sget(st, "pt:" + a0.n)
        return None

    def on_node(self, node, st):
        e = node.e
        if e is None:
            return [st]
        for n in e.walk():
            if n.k == "CallExpr":
                c = callee(n)
                if c == ("fn", "PyErr_Clear") and sget(st, "ce") is not None:
                    self.report("CMP-EXIT", node, st,
                                "PyErr_Clear after the comparison at %s failed" % sget(st, "ce").split("/")[-1],
                                "the exception raised by a key comparison is "
                                "cleared instead of reaching the caller")
                elif c == ("fn", "finiSetIteration") and len(n.kids) > 1:
                    v = self._iter_var(n.kids[1], st)
                    if v is not None:
                        st = sdel(st, "it:" + v)
                elif c[0] == "fn" and c[1] in DESCENTS and self.is_mutator and len(n.kids) > 1:
                    a = strip(n.kids[1])
                    if a is not None and "child" in text(a):
                        st = sset(st, "cm", node.where)
            elif (n.k == "BinaryOperator" and n.v == "=") or (n.k == "VarDecl" and n.kids and n.kids[-1].k != "Absent"):
                # SetIteration *a = &i1;   a = &i2;
                tgt = strip(n.kids[0]).n if n.k == "BinaryOperator" and strip(n.kids[0]) is not None \
                    and strip(n.kids[0]).k == "DeclRefExpr" else (n.n if n.k == "VarDecl" else None)
                if tgt and "SetIteration *" in (self.locals.get(tgt) or ""):
                    v = self._iter_var(n.kids[-1], st)
                    st = sset(st, "pt:" + tgt, v) if v else sdel(st, "pt:" + tgt)
            if n.k == "BinaryOperator" and n.v == "=":
                l0 = strip(n.kids[0])
                if l0 is not None and l0.k == "MemberExpr" and l0.n == "set":
                    b = strip(l0.kids[0])
                    if b is not None and b.k == "DeclRefExpr" and \
                            "SetIteration" in (self.locals.get(b.n) or "") and const_int(n.kids[1]) != 0:
                        st = sset(st, "it:" + b.n, node.where)
                        self.iter_sites.add(node.id)
        return [st]

    def on_edge(self, node, label, st):
        if label not in ("T", "F") or node.e is None:
            return st
        if is_cmp_error_branch(node):
            self.cmp_sites.add(node.id)
            if label == "T":
                if sget(st, "cm") is not None:
                    guards = self._guards(node, st)
                    self.report("CMP-AFTER-COMMIT", node, st,
                                "key comparison after the child was modified, under [%s]" % "; ".join(guards),
                                "a key comparison that can raise is executed "
                                "after the child node has been modified (at "
                                "%s; the comparison is guarded by [%s]): its error exit returns with the leaf "
                                "changed and the remaining relinking / "
                                "separator work skipped (partial change)" % (sget(st, "cm"), ", ".join(guards)))
                return sset(st, "ce", node.where)
            return st
        e = strip_parens(node.e)
        want = label == "T"
        while e is not None and e.k == "UnaryOperator" and e.v == "!":
            want = not want
            e = strip_parens(e.kids[0])
        e0 = strip(e)
        if e0 is not None and e0.k == "BinaryOperator" and e0.v in ("<", ">="):
            c0 = strip(e0.kids[0])
            if c0 is not None and c0.k == "CallExpr" and callee(c0) == ("fn", "initSetIteration") \
                    and const_int(e0.kids[1]) == 0:
                ok = (e0.v == "<") != want
                v = self._iter_var(c0.kids[1], st)
                if v is not None and ok:
                    self.iter_sites.add(node.id)
                    return sset(st, "it:" + v, node.where)
        return st

    def _guards(self, node, st):
        """Conditions of the if-statements enclosing the comparison."""
        if not hasattr(self, "_parents"):
            self._parents = {}
            stack = [self.cfg.fn]
            while stack:
                n = stack.pop()
                for c in n.kids:
                    self._parents[id(c)] = n
                    stack.append(c)
        target = strip(node.e)
        out = []
        cur = target
        while id(cur) in self._parents:
            par = self._parents[id(cur)]
            if par.k == "IfStmt" and par.kids and par.kids[0] is not cur and \
                    not (par.mi == "TEST_KEY_SET_OR" or par.mo in CMP_MACROS):
                branch = "" if (len(par.kids) > 1 and par.kids[1] is cur) else "!"
                names = sorted(set(path(x) for x in par.kids[0].walk()
                                   if x.k in ("DeclRefExpr", "MemberExpr") and path(x) and
                                   (x.rk in ("VarDecl", "ParmVarDecl") or x.k == "MemberExpr")))
                out.append(branch + "test of " + ", ".join(names) if names else branch + text(par.kids[0])[:50])
            cur = par
        return list(reversed(out))

    def _is_error(self, node, st):
        if node.e is None:
            return self.ret_is_void
        v = self.flag_value_of(node.e, st)
        if v is None:
            return None
        if v == "NN":
            return False
        return v == 0 if self.ret_is_ptr else v < 0

    def check_exits(self):
        for n in self.cfg.returns():
            for st in self.IN.get(n.id, ()):
                ce = sget(st, "ce")
                if ce is not None:
                    err = self._is_error(n, st)
                    if err is False:
                        self.report("CMP-EXIT", n, st,
                                    "success return %s after the comparison at %s failed" % (
                                        text(n.e)[:30] if n.e is not None else "", ce.split("/")[-1]),
                                    "a key comparison raised but the function "
                                    "returns a success value: the exception "
                                    "is left pending behind a normal result")
                for k, v in st:
                    if k.startswith("it:"):
                        self.report("ITER-FINI", n, st, "%s not finalised at return %s" % (
                            k[3:], text(n.e)[:30] if n.e is not None else ""),
                            "the SetIteration %s initialised at %s is not "
                            "passed to finiSetIteration on this exit: its "
                            "reference to the operand and the cached key/"
                            "value leak" % (k[3:], v))


def analyse_tu(tu):
    from .cursor import key_is_object
    obj = key_is_object(tu)
    findings = []
    cmp_sites = iter_sites = funcs = 0
    for name in tu.order:
        fn = tu.funcs[name]
        has_cmp = any(n.k == "CallExpr" and callee(n) == ("fn", "PyErr_Occurred") and
                      (n.mi == "TEST_KEY_SET_OR" or n.mo in CMP_MACROS) for n in fn.walk())
        has_iter = any(n.k == "VarDecl" and "SetIteration" in (n.t or "") and "*" not in (n.t or "")
                       for n in fn.walk())
        if not (has_cmp or has_iter):
            continue
        an = CmpAnalysis(CFG(fn), tu, obj)
        an.solve()
        an.check_exits()
        funcs += 1
        cmp_sites += len(an.cmp_sites)
        iter_sites += len(an.iter_sites)
        for rule, node, st, what, detail in an.reports:
            findings.append(dict(
                rule=rule, function=name, file=node.where.split(":")[0], line=node.line,
                construct=what, detail=detail, path=witness_lines(an.witness(node, st))))
    return dict(findings=findings,
                stats={"functions": funcs, "cmp_error_sites": cmp_sites, "iter_sites": iter_sites,
                       "object_keys": obj})


# ---------------------------------------------------------------------------
# Python: comparisons after the child was modified, in _Tree._set / _Tree._del

def py_rules(res):
    tree = pyfront.base_py()
    t = pyfront.class_members(pyfront.classes(tree)["_Tree"])
    n = 0
    for mname in ("_set", "_del"):
        fn = t.get(mname)
        if not isinstance(fn, ast.FunctionDef):
            raise AnalysisError("anchor vanished: _Tree.%s" % mname)
        # statement index of the descent
        idx = None
        for i, st in enumerate(fn.body):
            for c in ast.walk(st):
                if isinstance(c, ast.Call) and isinstance(c.func, ast.Attribute) and \
                        c.func.attr in ("_set", "_del") and pyfront.unparse(c.func.value) == "child":
                    idx = i
        if idx is None:
            raise AnalysisError("anchor vanished: child.%s call in _Tree.%s" % (mname, mname))
        for st in fn.body[idx + 1:]:
            for c in ast.walk(st):
                if isinstance(c, ast.Call) and isinstance(c.func, ast.Name) and c.func.id == "compare":
                    n += 1
                    guards = []
                    guard_nodes = []
                    p = c
                    while getattr(p, "_parent", None) is not None and p is not fn:
                        par = p._parent
                        if isinstance(par, ast.BoolOp) and isinstance(par.op, ast.And):
                            for v in par.values:
                                if v is p or any(x is p for x in ast.walk(v)):
                                    break
                                guards.append(pyfront.unparse(v))
                                guard_nodes.append(v)
                        if isinstance(par, ast.If) and any(x is p for b in par.body for x in ast.walk(b)):
                            guards.append(pyfront.unparse(par.test)[:40])
                            guard_nodes.append(par.test)
                        p = par
                    res.findings.add(dict(
                        rule="CMP-AFTER-COMMIT", function="_Tree.%s" % mname, file=REL, line=c.lineno,
                        construct="%s after child.%s, under tests of [%s]" % (
                            "comparison of the key with a separator of the node"
                            if any(isinstance(x, ast.Attribute) and x.attr == "key" for a in c.args
                                   for x in ast.walk(a)) else "key comparison", mname,
                            "; ".join(_guard_roots(fn, g) for g in guard_nodes)),
                        detail="a key comparison that can raise (%s, guarded by [%s]) is executed "
                               "after the child node has been modified: its "
                               "exception leaves the leaf changed and the "
                               "remaining unlink / separator work undone "
                               "(partial change)" % (pyfront.unparse(c), ", ".join(guards)), path=[]))
    res.count("PY-CMP-AFTER-COMMIT", max(1, n))


# ---------------------------------------------------------------------------
# PY-CMP-SWALLOW: an exception raised by a key comparison reaches the caller.
# No `try` of _base.py whose handler answers instead of re-raising may enclose
# a call into the comparing layer.

PY_COMPARING = ("_search", "_findbucket", "_set", "_del", "compare", "_range",
                "minKey", "maxKey", "_p_resolveConflict", "_set_operation",
                "difference", "union", "intersection", "add", "remove", "discard",
                "update", "insert", "setdefault", "pop", "get", "has_key",
                "__contains__", "__getitem__", "__setitem__", "__delitem__", "sorted", "sort")
PY_HARMLESS_EXC = ("StopIteration", "ImportError", "AttributeError")


def py_swallow(res):
    tree = pyfront.base_py()
    n = 0
    for fn in ast.walk(tree):
        if not isinstance(fn, ast.FunctionDef):
            continue
        # local aliases of bound methods:  _si = self.__setitem__
        alias = {}
        for a in ast.walk(fn):
            if isinstance(a, ast.Assign) and len(a.targets) == 1 and isinstance(a.targets[0], ast.Name) \
                    and isinstance(a.value, ast.Attribute):
                alias[a.targets[0].id] = a.value.attr
        for tr in ast.walk(fn):
            if not isinstance(tr, ast.Try):
                continue
            for h in tr.handlers:
                tname = pyfront.unparse(h.type) if h.type is not None else "bare except"
                if tname in PY_HARMLESS_EXC:
                    continue
                n += 1
                raises = [x for b in h.body for x in ast.walk(b) if isinstance(x, ast.Raise)]
                # a bare `raise` (or re-raising the caught object / the same
                # class) passes the exception on; raising another class
                # replaces it
                same = all(x.exc is None or (h.name and pyfront.unparse(x.exc) == h.name) or
                           pyfront.unparse(x.exc).split("(")[0] == tname for x in raises)
                if raises and same:
                    continue
                answers = "raises %s instead" % pyfront.unparse(raises[0].exc).split("(")[0] if raises \
                    else "returns an answer instead of re-raising"
                for b in tr.body:
                    for c in ast.walk(b):
                        if not isinstance(c, ast.Call):
                            continue
                        name = c.func.attr if isinstance(c.func, ast.Attribute) else \
                            c.func.id if isinstance(c.func, ast.Name) else None
                        name = alias.get(name, name)
                        if name in PY_COMPARING:
                            res.findings.add(dict(
                                rule="PY-CMP-SWALLOW", function=fn.name, file=REL, line=c.lineno,
                                construct="`except %s` of %s answers for %s" % (tname, fn.name, pyfront.unparse(c.func)),
                                detail="%s compares keys; an exception raised by a "
                                       "comparison inside it is caught by `except %s` "
                                       "at line %d, which %s: the caller never sees "
                                       "the key's exception" % (pyfront.unparse(c)[:60], tname, h.lineno, answers),
                                path=[]))
    res.count("PY-CMP-SWALLOW", n)
    res.floor("python exception handlers examined", n, 8)
