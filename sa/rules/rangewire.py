"""RANGE-WIRING (C02): BTree_rangeSearch with both bounds given - which end is
searched with which bound and which exclusion flag, and what is built from the
two results.

The function is walked by the abstract interpreter of rules/findend.py with
the four range arguments as opaque roles (named after the keyword list the
argument parser is handed, so a reordered declaration is followed), both
endpoint searches successful, the two ends in different leaves and not
crossed.  Required: exactly two endpoint searches,

    BTree_findRangeEnd(R, min, 1, excludemin, -> LOW,  LOW offset)
    BTree_findRangeEnd(R, max, 0, excludemax, -> HIGH, HIGH offset)

and the result built as newBTreeItems(kind, LOW, LOW offset, HIGH, HIGH
offset).  With a search returning 0 the result is the empty sequence, with -1
the error.  (Omitted bounds: UNBOUNDED-END; the emptiness tests: ENDS-CROSS.)
"""
import itertools

from ..cir import strip, path, callee, const_int, text
from ..common import AnalysisError
from . import findend as fe

FN = "BTree_rangeSearch"
ROLES = ("min", "max", "excludemin", "excludemax")


def keyword_order(tu, call):
    """names of the keyword list handed to PyArg_ParseTupleAndKeywords"""
    kwl = strip(call.kids[4])
    name = path(kwl)
    g = tu.globals.get(name) if name else None
    if g is None:
        raise AnalysisError("RANGE-WIRING: keyword list %s of the argument parser" % name)
    out = []
    for n in g.walk():
        if n.k == "StringLiteral":
            out.append((n.v or "").strip('"'))
    return out


class Walk(fe.Walk):
    def __init__(self, tu, atoms):
        fe.Walk.__init__(self, tu, dict(levels=1, z1=True, z2=True, r=0, low=0, next=0))
        self.m = atoms
        self.searches = []
        self.built = None

    def truth(self, v, e=None):
        if isinstance(v, tuple) and v[0] == "param":
            return True
        if isinstance(v, tuple) and v[0] in ("data", "nonzero"):
            return True
        return fe.Walk.truth(self, v, e)

    def member(self, e):
        base = self.ev(e.kids[0])
        if isinstance(base, tuple) and base[0] == "node":
            if e.n == "keys":
                return ("keys", base[1])
            if e.n in ("data", "len"):
                return ("nonzero", "%s(%s)" % (e.n, base[1]))
            if e.n == "firstbucket":
                return fe._node("first(%s)" % base[1])
        raise AnalysisError("RANGE-WIRING: member %s of %s at line %s" % (e.n, fe._show(base), e.l))

    def ev(self, e):
        e0 = strip(e)
        if e0 is not None and e0.k == "BinaryOperator" and e0.v in ("==", "!=") and "_Py_NoneStruct" in text(e0) \
                and "_Py_NoneStruct" not in text(e0.kids[0]):
            v = self.ev(e0.kids[0])
            is_none = not (isinstance(v, tuple) and v[0] == "param")
            return int(is_none == (e0.v == "=="))
        if e0 is not None and e0.k == "UnaryOperator" and e0.v == "&" and "_Py_NoneStruct" in text(e0):
            return ("none",)
        if e0 is not None and e0.k == "ArraySubscriptExpr":
            base = self.ev(e0.kids[0])
            if isinstance(base, tuple) and base[0] == "keys":
                return ("keyof", base[1], fe._show(self.ev(e0.kids[1])))
        if e0 is not None and e0.k == "BinaryOperator" and e0.v in ("<", ">", "<=", ">=", "==", "!="):
            a = strip(e0.kids[0])
            if a is not None and a.k == "DeclRefExpr" and self.env.get(a.n) == ("sym", "order of the end keys") \
                    and const_int(e0.kids[1]) == 0:
                # the ends are not crossed: first < last
                return int({"<": True, "<=": True, "!=": True, ">": False, ">=": False, "==": False}[e0.v])
        return fe.Walk.ev(self, e)

    def call(self, e):
        c = callee(e)
        name = c[1] if c[0] == "fn" else None
        args = e.kids[1:]
        if name == "PyArg_ParseTupleAndKeywords":
            order = keyword_order(self.tu, e)
            outs = args[4:]
            if len(outs) != len(order) or sorted(order) != sorted(ROLES):
                raise AnalysisError("RANGE-WIRING: the argument parser binds %d variables to keywords %s"
                                    % (len(outs), order))
            for kw, o in zip(order, outs):
                o = strip(o)
                if o.k != "UnaryOperator" or o.v != "&":
                    raise AnalysisError("RANGE-WIRING: parser out-parameter %s" % text(o)[:30])
                self.env[path(o.kids[0])] = ("param", kw)
            return 1
        if name == "BTree_findRangeEnd":
            node, bound, low, excl = (self.ev(a) for a in args[:4])
            which = len(self.searches)
            rc = self.m["rc"][which] if which < 2 else 1
            outs = [self.ev(a) for a in args[4:]]
            if len(outs) != 2 or not all(isinstance(o, tuple) and o[0] == "addr" for o in outs):
                raise AnalysisError("RANGE-WIRING: out-parameters of the endpoint search")
            end = "LOW" if low == 1 else "HIGH"
            self.searches.append((fe._show(node), fe._show(bound), low, fe._show(excl), end))
            if rc > 0:
                self.env[outs[0][1]] = fe._node(end)
                self.env[outs[1][1]] = ("sym", end + " offset")
            return rc
        if name == "newBTreeItems":
            vals = [self.ev(a) for a in args]
            self.built = tuple(fe._show(v) for v in vals[1:])
            return ("obj", "items")
        return fe.Walk.call(self, e)

    def stmt(self, s):
        if s.k == "IfStmt" and (s.mo == "TEST_KEY_SET_OR" or s.mi == "TEST_KEY_SET_OR"):
            # cmp = compare(first, last); the comparison does not fail
            for n in s.kids[0].walk():
                if n.k == "BinaryOperator" and n.v == "=":
                    l = strip(n.kids[0])
                    if l is not None and l.k == "DeclRefExpr":
                        self.env[l.n] = ("sym", "order of the end keys")
                        ops = [x for x in n.kids[1].walk() if x.k == "DeclRefExpr" and x.n in self.env]
                        self.cmp_operands = [self.env.get(x.n) for x in ops]
                        return
            raise AnalysisError("RANGE-WIRING: comparison macro at line %s" % s.l)
        if s.mo == "COPY_KEY":
            return              # the end keys are copied for the comparison below
        fe.Walk.stmt(self, s)


def outcome(tu, rc):
    fn = tu.funcs.get(FN)
    body = tu.body(FN)
    w = Walk(tu, dict(rc=rc))
    params = [p.n for p in fn.kids if p.k == "ParmVarDecl"]
    if len(params) != 4:
        raise AnalysisError("RANGE-WIRING: signature of %s" % FN)
    w.env[params[0]] = fe._node("R")
    w.env[params[1]] = ("param", "args")
    w.env[params[2]] = ("param", "kw")
    w.env[params[3]] = ("param", "kind")
    try:
        w.run_body(body)
        rv = None
    except fe._Return as r:
        rv = r.v
    if isinstance(rv, tuple) and rv[0] == "obj":
        res = "items" + repr(w.built)
    elif rv == 0:
        res = "NULL"
    else:
        raise AnalysisError("RANGE-WIRING: %s returns %s" % (FN, fe._show(rv)))
    return w.searches, res


def spec(rc):
    low = ("R", "min", 1, "excludemin", "LOW")
    high = ("R", "max", 0, "excludemax", "HIGH")
    if rc[0] < 0:
        return [low], "NULL"
    if rc[0] == 0:
        return [low], "items('0', '0', '0', '0')"
    if rc[1] < 0:
        return [low, high], "NULL"
    if rc[1] == 0:
        return [low, high], "items('0', '0', '0', '0')"
    return [low, high], "items('LOW', 'LOW offset', 'HIGH', 'HIGH offset')"


def c_check(tu):
    findings = []
    fn = tu.func(FN)
    n = 0
    for rc in itertools.product((-1, 0, 1), repeat=2):
        if rc[0] <= 0 and rc[1] != 1:
            continue
        n += 1
        got = outcome(tu, rc)
        want = spec(rc)
        ok = got[1] == want[1] and sorted(got[0]) == sorted(want[0])
        if not ok:
            findings.append(dict(
                rule="RANGE-WIRING", function=FN, file=fn.f, line=fn.l,
                construct="both bounds given, endpoint searches return %s: searches %s, result %s "
                          "(specified %s, %s)" % (list(rc), got[0], got[1], want[0], want[1]),
                detail="the low end is searched with min, low = 1 and excludemin, the high end with max, "
                       "low = 0 and excludemax; the sequence is built from (LOW, LOW offset, HIGH, HIGH "
                       "offset); a search that finds nothing gives the empty sequence, a failing one the "
                       "error", path=[]))
    return dict(findings=findings, n=n)
