"""Allocation discipline (C17): ALLOC-CHECKED, REALLOC-DISC, RAW-ALLOC, wrappers.

State components (per access path P):
  m:P -> origin     P holds the unchecked result of a call that can fail by
                    allocation (possibly NULL)
  r:Q -> P          Q holds the successful result of BTree_Realloc(P, ...) and
                    P has not been updated yet (P dangles until `P = Q`)
"""
from ..cir import strip, strip_parens, path, callee, text, const_int
from ..cfg import CFG
from ..flow import Analysis, sget, sset, sdel, witness_lines
from ..common import AnalysisError

ALLOC_OWN = frozenset(["BTree_Malloc", "BTree_Realloc", "malloc", "realloc",
                       "PyObject_CallObject", "PyObject_CallFunctionObjArgs",
                       "BTree_newBucket", "_PyObject_New"])
ALLOC_CPY = frozenset("""PyLong_FromLong PyLong_FromLongLong PyLong_FromUnsignedLongLong
PyFloat_FromDouble PyTuple_New PyList_New Py_BuildValue PyTuple_Pack
PyBytes_FromStringAndSize longlong_as_object ulonglong_as_object PyObject_GetAttr
PyObject_GetIter PySequence_List PySet_New PyUnicode_FromString""".split())
ALLOCS = ALLOC_OWN | ALLOC_CPY

# argument positions that must not be NULL
NULL_INTOLERANT = {
    "memcpy": (0, 1), "memmove": (0, 1), "memset": (0,),
    "Py_INCREF": (0,), "Py_DECREF": (0,),
    "PyTuple_SET_ITEM": (0, 2), "PyList_SetItem": (0, 2), "PyList_Append": (0, 1),
    "PyTuple_GET_SIZE": (0,), "PyTuple_GetItem": (0,), "PyList_Sort": (0,),
    "PyIter_Next": (0,), "PyObject_GetAttr": (0,), "PyObject_CallObject": (0,),
    "Py_TYPE": (0,), "PyBytes_AS_STRING": (0,),
}
OUT_OF_SCOPE_SUFFIX = ("_repr",)
OUT_OF_SCOPE = ("module_init", "init_persist_type", "init_tree_type", "init_type_with_meta_base")
RAW = ("malloc", "realloc")     # free() cannot fail: its discipline is FREE-DISC, at every site
# who may call the raw allocator (confirmed by reading)
RAW_ALLOWED = {
    "malloc": {"BTree_Malloc", "BTree_Realloc", "sort_int_nodups"},
    "realloc": {"BTree_Realloc"},
}


def in_scope(name):
    return not (name.endswith(OUT_OF_SCOPE_SUFFIX) or name in OUT_OF_SCOPE
                or name.startswith("PyInit_"))


class AllocAnalysis(Analysis):
    def __init__(self, cfg, tu):
        Analysis.__init__(self, cfg, tu)
        self.reports = []
        self._seen = set()
        self.sites = 0
        self.free_sites = set()
        self.size_sites = set()
        self.realloc_sites = 0
        self._site_ids = set()

    def report(self, rule, node, st, what, detail):
        key = (rule, node.id, what)
        if key not in self._seen:
            self._seen.add(key)
            self.reports.append((rule, node, st, what, detail))

    # ---- helpers ---------------------------------------------------------------
    def _alloc_call(self, e):
        e = strip(e)
        if e is not None and e.k == "CallExpr":
            c = callee(e)
            if c[0] == "fn" and (c[1] in ALLOCS or c[1] in getattr(self, "extra", ())):
                return c[1], e
        return None, None

    def _kill(self, st, p):
        out = []
        for k, v in st:
            if k[:2] in ("m:", "r:", "x:"):
                q = k[2:]
                if q == p or (q.startswith(p) and q[len(p):len(p) + 1] in ("-", ".", "[")):
                    continue
            if k[:2] == "r:" and (v == p):
                pass
            # local copy of a member pointer (detach-then-free idiom): the
            # copy stops standing for the member once either is reassigned
            if k[:2] == "l:" and (k[2:] == p or v == p):
                continue
            out.append((k, v))
        return frozenset(out)

    def _detached_copy(self, name):
        """name is a local initialised from a member pointer somewhere in this
        function (counted as a free(member) site of the detach-first idiom)."""
        for n in self.cfg.fn.walk():
            if n.k == "VarDecl" and n.n == name:
                init = [c for c in n.kids if c.k != "Absent"]
                if init and "->" in (path(init[-1]) or ""):
                    return True
        return False

    def _use(self, node, st, e, how):
        """e is used in a NULL-intolerant way."""
        p = path(e)
        if p is None:
            return
        o = sget(st, "m:" + p)
        if o is not None:
            self.report("ALLOC-CHECKED", node, st,
                        "%s from %s unchecked in %s" % (p, o, how),
                        "the result of %s is stored in %s and %s without a "
                        "NULL test on this path: after an allocation failure "
                        "this dereferences or stores NULL" % (o, p, how))

    def _walk(self, node, st, e):
        k = e.k
        if k == "DeclStmt":
            for v in e.kids:
                if v.k == "VarDecl":
                    init = [c for c in v.kids if c.k != "Absent"]
                    if init:
                        st = self._walk(node, st, init[-1])
                        st = self._assign(node, st, v.n, init[-1], v)
            return st
        if k == "BinaryOperator" and e.v == "=":
            st = self._walk(node, st, e.kids[1])
            l0 = strip(e.kids[0])
            # lhs base dereferences
            if l0 is not None and l0.k in ("MemberExpr", "ArraySubscriptExpr"):
                st = self._walk_deref_base(node, st, l0)
            p = path(e.kids[0])
            if p is not None:
                st = self._assign(node, st, p, e.kids[1], e)
                if p.endswith("->size") and const_int(e.kids[1]) != 0:
                    st = sset(st, "z:" + p[:-6], node.where)
                    self.size_sites.add(node.id)
            return st
        if k == "CompoundAssignOperator":
            st = self._walk(node, st, e.kids[1])
            p = path(e.kids[0])
            if p is not None and p.endswith("->size"):
                st = sset(st, "z:" + p[:-6], node.where)
                self.size_sites.add(node.id)
            return st
        if k == "CallExpr":
            for a in e.kids[1:]:
                st = self._walk(node, st, a)
            c = callee(e)
            args = e.kids[1:]
            if c == ("fn", "PyErr_Clear") and sget(st, "e:pending") is not None:
                st = sdel(st, "e:pending")
            if c[0] == "fn":
                pos = NULL_INTOLERANT.get(c[1])
                if pos:
                    for i in pos:
                        if i < len(args):
                            self._use(node, st, args[i], "passed to %s" % c[1])
                if c[1] == "free" and args:
                    p = path(args[0])
                    if p is not None and sget(st, "l:" + p) is not None:
                        # free(local) while the member it was copied from has
                        # not been reset: the member dangles
                        p = sget(st, "l:" + p)
                    if p is not None and ("->" in p or "." in p):
                        st = sset(st, "x:" + p, "freed")
                        self.free_sites.add(node.id)
                    elif p is not None and self._detached_copy(p):
                        self.free_sites.add(node.id)
                    if p is not None:
                        tgt = sget(st, "r:" + p)
                        if tgt is not None:
                            self.report("REALLOC-DISC", node, st,
                                        "free(%s) while %s still points to the old block" % (p, tgt),
                                        "%s is the block BTree_Realloc returned "
                                        "for %s; freeing it before `%s = %s` "
                                        "leaves %s dangling (use after free / "
                                        "double free later)" % (p, tgt, tgt, p, tgt))
                            st = sdel(st, "r:" + p)
                # a repository callee that dereferences the parameter without ever testing it
                for i in getattr(self, "must_deref", {}).get(c[1], ()):
                    if i < len(args):
                        self._use(node, st, args[i], "passed to %s, which dereferences it untested" % c[1])
                # escape: passing a maybe-null value to any other function
                for a in args:
                    p = path(a)
                    if p is not None and sget(st, "m:" + p) is not None and \
                            c[1] not in NULL_INTOLERANT:
                        st = sdel(st, "m:" + p)
            return st
        if k == "MemberExpr":
            st = self._walk(node, st, e.kids[0])
            if e.v == "->":
                self._use(node, st, e.kids[0], "dereferenced (%s->%s)" % (path(e.kids[0]), e.n))
            return st
        if k == "ArraySubscriptExpr":
            st = self._walk(node, st, e.kids[0])
            st = self._walk(node, st, e.kids[1])
            self._use(node, st, e.kids[0], "subscripted")
            return st
        if k == "UnaryOperator" and e.v == "*":
            st = self._walk(node, st, e.kids[0])
            self._use(node, st, e.kids[0], "dereferenced")
            return st
        if k == "UnaryExprOrTypeTraitExpr":
            return st
        for c2 in e.kids:
            st = self._walk(node, st, c2)
        return st

    def _walk_deref_base(self, node, st, l0):
        if l0.k == "MemberExpr":
            st = self._walk(node, st, l0.kids[0])
            if l0.v == "->":
                self._use(node, st, l0.kids[0], "dereferenced (%s->%s)" % (path(l0.kids[0]), l0.n))
        elif l0.k == "ArraySubscriptExpr":
            st = self._walk(node, st, l0.kids[0])
            st = self._walk(node, st, l0.kids[1])
            self._use(node, st, l0.kids[0], "subscripted")
        return st

    def _assign(self, node, st, p, rhs, stmt):
        name, call = self._alloc_call(rhs)
        st = self._kill(st, p)
        rp0 = path(rhs)
        if rp0 is not None and "->" in rp0 and "->" not in p and "." not in p \
                and "[" not in p and "[" not in rp0:
            st = sset(st, "l:" + p, rp0)
        elif rp0 is not None and "->" in p and "[" not in p and "->" not in rp0 \
                and "." not in rp0 and "[" not in rp0 and rp0 in self.locals:
            # member = local (store-back): the local now stands for the member
            st = sset(st, "l:" + rp0, p)
        # store-back  P = Q
        rp = path(rhs)
        if rp is not None and sget(st, "r:" + rp) == p:
            st = sdel(st, "r:" + rp)
        if name is not None:
            if (node.id, p) not in self._site_ids:
                self._site_ids.add((node.id, p))
                self.sites += 1
            st = sset(st, "m:" + p, name)
            if name == "BTree_Realloc" and len(call.kids) > 1:
                src = path(call.kids[1])
                if (node.id, "r") not in self._site_ids:
                    self._site_ids.add((node.id, "r"))
                    self.realloc_sites += 1
                if src is not None:
                    if src == p:
                        self.report("REALLOC-DISC", node, st,
                                    "%s = BTree_Realloc(%s, ...)" % (p, src),
                                    "the result is assigned directly to the "
                                    "pointer being resized: on failure the "
                                    "only reference to the block is lost")
                    else:
                        st = sset(st, "r:" + p, src)
        elif rp is not None and sget(st, "m:" + rp) is not None:
            # copy of a maybe-null value
            st = sset(st, "m:" + p, sget(st, "m:" + rp))
        return st

    def on_node(self, node, st):
        if node.e is None:
            return [st]
        return [self._walk(node, st, node.e)]

    def on_edge(self, node, label, st):
        if label not in ("T", "F") or node.e is None:
            return st
        e = strip_parens(node.e)
        want = label == "T"
        while e is not None and e.k == "UnaryOperator" and e.v == "!":
            want = not want
            e = strip_parens(e.kids[0])
        e0 = strip(e)
        p = None
        nonnull_edge = None
        if e0 is not None and e0.k == "BinaryOperator" and e0.v in ("==", "!="):
            a, b = strip(e0.kids[0]), strip(e0.kids[1])
            if a is not None and a.k == "BinaryOperator" and a.v == "=":
                a = strip(a.kids[0])
            if const_int(b) == 0 and a is not None:
                p = path(a)
                nonnull_edge = (e0.v == "!=") == want
            elif const_int(a) == 0 and b is not None:
                p = path(b)
                nonnull_edge = (e0.v == "!=") == want
        elif e0 is not None and e0.k == "BinaryOperator" and e0.v == "=":
            p = path(e0.kids[0])
            nonnull_edge = want
        elif e0 is not None:
            p = path(e0)
            nonnull_edge = want
        if p is None:
            return st
        org = sget(st, "m:" + p)
        if org in ("BTree_Realloc", "BTree_Malloc") and not nonnull_edge:
            for k, v in st:
                if k.startswith("z:"):
                    self.report("SIZE-BEFORE-ALLOC", node, st,
                                "%s->size set before %s(%s) succeeded" % (k[2:], org, p),
                                "%s->size is changed at %s, then the "
                                "allocation stored in %s fails: the node keeps "
                                "a capacity its arrays do not have (later "
                                "writes run past the block)" % (k[2:], v, p))
        if org in ("BTree_Realloc", "BTree_Malloc") and not nonnull_edge:
            # the wrapper has set MemoryError
            st = sset(st, "e:pending", "%s from %s at %s" % (p, org, node.where))
        if sget(st, "m:" + p) is not None:
            st = sdel(st, "m:" + p)
        if not nonnull_edge and sget(st, "r:" + p) is not None:
            # the realloc failed: the old pointer is still the valid one
            st = sdel(st, "r:" + p)
        return st

    def _error_return(self, n, st):
        """True / False / None (unknown): does this return signal an error?"""
        rt = (self.cfg.fn.t or "").split("(")[0].strip()
        if n.e is None:
            return None
        v = self.flag_value_of(n.e, st)
        if rt.endswith("*"):
            if v == 0:
                return True
            if v == "NN":
                return False
            org = sget(st, "e:pending") or ""
            if path(n.e) is not None and org.startswith(path(n.e) + " from "):
                return True         # returns the NULL it received
            return None
        if rt in ("size_t", "unsigned int", "unsigned long", "void"):
            return False            # no error convention: every return is a success
        if isinstance(v, int):
            return v < 0
        return None

    def check_exits(self):
        for n in self.cfg.returns():
            for st in self.IN.get(n.id, ()):
                pend = sget(st, "e:pending")
                if pend is not None and self._error_return(n, st) is False:
                    self.report("EXC-PENDING", n, st,
                                "success return with MemoryError pending (%s)" % pend.split(" at ")[0],
                                "the allocation wrapper raised MemoryError "
                                "(%s); this path recovers and returns a "
                                "success value without clearing it: the "
                                "caller's next C-API call fails with "
                                "SystemError / a stale MemoryError. A "
                                "fallback path must use the raw allocator "
                                "or PyErr_Clear()" % pend)
                for k, v in st:
                    if k.startswith("x:"):
                        self.report("FREE-DISC", n, st,
                                    "%s freed and not reset at return" % k[2:],
                                    "free(%s) is followed by a return without "
                                    "reassigning %s: the owner keeps a "
                                    "dangling pointer (double free at "
                                    "dealloc)" % (k[2:], k[2:]))
                    if k.startswith("r:"):
                        self.report("REALLOC-DISC", n, st,
                                    "%s not stored back from %s at return" % (v, k[2:]),
                                    "BTree_Realloc moved the block of %s into "
                                    "%s but the function returns without "
                                    "`%s = %s`: %s dangles" % (v, k[2:], v, k[2:], v))


def analyse_tu(tu):
    findings = []
    sites = reallocs = funcs = frees = sizes = 0
    for name in tu.order:
        if not in_scope(name):
            continue
        fn = tu.funcs[name]
        # quick filter: only functions that call something allocating
        if not any(n.k == "CallExpr" and callee(n)[0] == "fn" and
                   (callee(n)[1] in ALLOCS or callee(n)[1] == "free") for n in fn.walk()):
            continue
        funcs += 1
        an = AllocAnalysis(CFG(fn), tu)
        an.solve()
        an.check_exits()
        sites += an.sites
        reallocs += an.realloc_sites
        frees += len(an.free_sites)
        sizes += len(an.size_sites)
        for rule, node, st, what, detail in an.reports:
            findings.append(dict(
                rule=rule, function=name, file=node.where.split(":")[0],
                line=node.line, construct=what, detail=detail,
                path=witness_lines(an.witness(node, st))))
    # RAW-ALLOC
    raw_sites = 0
    for name, fn in tu.funcs.items():
        for n in fn.walk():
            if n.k == "CallExpr":
                c = callee(n)
                if c[0] == "fn" and c[1] in RAW:
                    raw_sites += 1
                    if name not in RAW_ALLOWED[c[1]]:
                        findings.append(dict(
                            rule="RAW-ALLOC", function=name, file=n.f, line=n.l,
                            construct="%s called from %s" % (c[1], name),
                            detail="raw %s outside the allocation wrappers / "
                                   "the confirmed owners: failure is not "
                                   "turned into MemoryError by BTree_Malloc/"
                                   "BTree_Realloc" % c[1], path=[]))
    # wrappers raise MemoryError on failure
    wrappers = 0
    for w in ("BTree_Malloc", "BTree_Realloc"):
        fn = tu.func(w)
        wrappers += 1
        if not any(n.k == "CallExpr" and callee(n) == ("fn", "PyErr_NoMemory")
                   for n in fn.walk()):
            findings.append(dict(
                rule="ALLOC-CHECKED", function=w, file=fn.f, line=fn.l,
                construct="%s does not call PyErr_NoMemory" % w,
                detail="the wrapper no longer reports allocation failure as "
                       "MemoryError", path=[]))
    return dict(findings=findings,
                stats={"alloc_sites": sites, "realloc_sites": reallocs,
                       "free_member_sites": frees, "size_store_sites": sizes,
                       "functions": funcs, "raw_sites": raw_sites, "wrappers": wrappers})


# ---------------------------------------------------------------------------
# NULL-RESULT (C16): the same dataflow, for the repository's own functions
# that can return NULL (activation of a ghost failed, empty tree, ...).

def may_return_null(tu):
    out = set()
    for name in tu.order:
        fn = tu.funcs[name]
        rt = (fn.t or "").split("(")[0].strip()
        if not rt.endswith("*") or rt.startswith(("char", "const char", "void")):
            continue
        body = tu.body(name)
        if body is None:
            continue
        for n in body.walk():
            if n.k == "ReturnStmt" and n.kids and const_int(n.kids[0]) == 0:
                out.add(name)
                break
    return out - ALLOCS


def must_deref_params(tu):
    """{function: [parameter positions]} - pointer parameters the function
    dereferences and never tests (no truth test / comparison with NULL of the
    parameter anywhere in the function)"""
    out = {}
    for name in tu.order:
        fn = tu.funcs[name]
        body = tu.body(name)
        if body is None:
            continue
        params = [k for k in fn.kids if k.k == "ParmVarDecl"]
        tested, deref = set(), set()
        for n in body.walk():
            if n.k in ("IfStmt", "WhileStmt", "ConditionalOperator", "ForStmt", "DoStmt") or \
                    (n.k == "BinaryOperator" and n.v in ("&&", "||", "==", "!=")) or \
                    (n.k == "UnaryOperator" and n.v == "!"):
                conds = n.kids[:1] if n.k in ("IfStmt", "ConditionalOperator", "WhileStmt") else n.kids
                for c in conds:
                    c0 = strip(c)
                    while c0 is not None and c0.k == "UnaryOperator" and c0.v == "!":
                        c0 = strip(c0.kids[0])
                    if c0 is not None and c0.k == "DeclRefExpr":
                        tested.add(c0.n)
                    if c0 is not None and c0.k == "BinaryOperator" and c0.v in ("==", "!=", "&&", "||"):
                        for x in c0.kids:
                            x0 = strip(x)
                            if x0 is not None and x0.k == "DeclRefExpr":
                                tested.add(x0.n)
            if n.k == "MemberExpr" and n.v == "->":
                b = strip(n.kids[0])
                if b is not None and b.k == "DeclRefExpr":
                    deref.add(b.n)
            if n.k == "BinaryOperator" and n.v == "=":
                l0 = strip(n.kids[0])
                if l0 is not None and l0.k == "DeclRefExpr":
                    tested.add(l0.n)          # reassigned: no longer the argument
        pos = [i for i, p in enumerate(params) if (p.t or "").strip().endswith("*") and
               p.n in deref and p.n not in tested]
        if pos:
            out[name] = pos
    return out


def analyse_null_results(tu):
    extra = may_return_null(tu)
    md = must_deref_params(tu)
    findings = []
    sites = 0
    for name in tu.order:
        if not in_scope(name):
            continue
        fn = tu.funcs[name]
        calls = [n for n in fn.walk() if n.k == "CallExpr" and callee(n)[0] == "fn" and callee(n)[1] in extra]
        if not calls:
            continue
        sites += len(calls)
        an = AllocAnalysis(CFG(fn), tu)
        an.extra = extra
        an.must_deref = md
        an.solve()
        seen = set()
        for rule, node, st, what, detail in sorted(an.reports, key=lambda r: r[1].line):
            if rule != "ALLOC-CHECKED" or not any((" from %s " % x) in what for x in extra):
                continue
            head = what.split(" unchecked in ")[0]          # `<var> from <callee>`: first use only
            if head in seen:
                continue
            seen.add(head)
            findings.append(dict(
                rule="NULL-RESULT", function=name, file=node.where.split(":")[0],
                line=node.line, construct=head + " used without a NULL test",
                detail="the callee returns NULL when it fails (a ghost that cannot be "
                       "activated, an empty tree, a failed allocation); first use: %s; %s"
                       % (what.split(" unchecked in ")[1], detail),
                path=witness_lines(an.witness(node, st))))
    return dict(findings=findings, stats={"null_result_sites": sites, "may_null_functions": len(extra)})
