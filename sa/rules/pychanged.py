"""C04, Python side.

PY-CHANGED-FOLLOWS  in methods of the persistent classes an in-place mutation
    of a list reachable from self (self._keys/_values/_data and local aliases)
    or of a _TreeItem field is accompanied, on every path to a normal return,
    by `self._p_changed = <true>` or a persistent attribute assignment on self.
PY-EMBEDDED-LEAF    _Tree._set/_del register the tree when its only, oid-less
    leaf changed, under a guard implied by the embedding guard of
    _Tree.__getstate__.
"""
import ast

from ..common import AnalysisError, SRC
from .. import pyfront

REL = SRC + "/_base.py"
PERSISTENT_CLASSES = ("_BucketBase", "Bucket", "Set", "_Tree", "Tree", "TreeSet",
                      "_MutableMappingMixin", "_MutableSetMixin")
LISTS = ("_keys", "_values", "_data")
MUTATORS = ("insert", "append", "pop", "extend", "remove", "clear", "sort", "reverse")
EXEMPT_METHODS = ("__setstate__", "__init__", "__new__")

# accepted idioms: (class, method, statement text) -> reason
ACCEPTED = {
    ("_Tree", "_split", "del data[index:]"):
        "the node being split was registered by its own _grow in the same "
        "operation (the only caller, _grow, runs after child._set grew the "
        "child through child._grow, which sets child._p_changed)",
}


def _aliases(fn):
    """local names bound to self.<list> (lists) / to elements of _data (items)."""
    lists, items = set(), set()
    for n in ast.walk(fn):
        if isinstance(n, ast.Assign) and len(n.targets) == 1 and isinstance(n.targets[0], ast.Name):
            v = n.value
            if pyfront.is_self_attr(v) and v.attr in LISTS:
                lists.add(n.targets[0].id)
    changed = True
    while changed:
        changed = False
        for n in ast.walk(fn):
            if isinstance(n, ast.Assign) and len(n.targets) == 1 and isinstance(n.targets[0], ast.Name):
                v = n.value
                if isinstance(v, ast.Subscript) and _is_list(v.value, lists) and \
                        n.targets[0].id not in items:
                    items.add(n.targets[0].id)
                    changed = True
    return lists, items


def _is_list(e, lists):
    if pyfront.is_self_attr(e) and e.attr in LISTS:
        return True
    return isinstance(e, ast.Name) and e.id in lists


def _is_item(e, lists, items):
    if isinstance(e, ast.Name) and e.id in items:
        return True
    return isinstance(e, ast.Subscript) and _is_list(e.value, lists)


REGISTERING_HELPERS = set()      # methods whose straight-line top level registers self (filled by check())


def _events(st, lists, items):
    """('M', text) mutation / ('R', text) registration events of a simple stmt."""
    out = []
    for n in ast.walk(st):
        if isinstance(n, ast.Call) and isinstance(n.func, ast.Attribute) and isinstance(n.func.value, ast.Name) \
                and n.func.value.id == "self" and n.func.attr in REGISTERING_HELPERS:
            out.append(("R", pyfront.unparse(n)))
        if isinstance(n, ast.Call) and isinstance(n.func, ast.Attribute) and \
                n.func.attr in MUTATORS and _is_list(n.func.value, lists):
            out.append(("M", pyfront.unparse(n)))
        elif isinstance(n, ast.Delete):
            for t in n.targets:
                if isinstance(t, ast.Subscript) and _is_list(t.value, lists):
                    out.append(("M", pyfront.unparse(n)))
        elif isinstance(n, (ast.Assign, ast.AugAssign)):
            tgts = n.targets if isinstance(n, ast.Assign) else [n.target]
            for t in tgts:
                for tt in (t.elts if isinstance(t, ast.Tuple) else [t]):
                    if isinstance(tt, ast.Subscript) and _is_list(tt.value, lists):
                        out.append(("M", pyfront.unparse(n)))
                    elif isinstance(tt, ast.Attribute) and tt.attr in ("key", "child") and \
                            _is_item(tt.value, lists, items):
                        out.append(("M", pyfront.unparse(n)))
                    elif isinstance(tt, ast.Name) and tt.id in lists and isinstance(n, ast.AugAssign):
                        out.append(("M", pyfront.unparse(n)))
                    elif pyfront.is_self_attr(tt):
                        if tt.attr == "_p_changed":
                            v = n.value
                            if not (isinstance(v, ast.Constant) and not v.value):
                                out.append(("R", pyfront.unparse(n)))
                        elif not tt.attr.startswith(("_p_", "_v_")):
                            out.append(("R", pyfront.unparse(n)))
    return out


class _Walker(object):
    """Abstract states: frozenset of (mutated-by (tuple of texts), registered)."""

    def __init__(self, lists, items):
        self.lists, self.items = lists, items
        self.exits = set()

    def simple(self, st, states):
        ev = _events(st, self.lists, self.items)
        if not ev:
            return states
        out = set()
        for m, r in states:
            for kind, txt in ev:
                if kind == "M" and txt not in m:
                    m = m + (txt,)
                elif kind == "R":
                    r = True
            out.add((m, r))
        return out

    def block(self, body, states):
        for st in body:
            if not states:
                break
            states = self.stmt(st, states)
        return states

    def stmt(self, st, states):
        if isinstance(st, ast.Return):
            states = self.simple(st, states)
            self.exits |= states
            return set()
        if isinstance(st, ast.Raise):
            return set()
        if isinstance(st, ast.If):
            s0 = self.simple(ast.Expr(value=st.test), states)
            return self.block(st.body, set(s0)) | self.block(st.orelse, set(s0))
        if isinstance(st, (ast.For, ast.While)):
            cur = set(states)
            for _ in range(6):
                nxt = cur | self.block(st.body, set(cur))
                if nxt == cur:
                    break
                cur = nxt
            return cur | self.block(st.orelse, set(cur))
        if isinstance(st, ast.Try):
            mid = set(states)
            cur = set(states)
            for b in st.body:
                cur = self.stmt(b, cur)
                mid |= cur
            out = self.block(st.orelse, set(cur))
            for h in st.handlers:
                out |= self.block(h.body, set(mid))
            if st.finalbody:
                out = self.block(st.finalbody, out)
            return out
        if isinstance(st, ast.With):
            return self.block(st.body, states)
        if isinstance(st, (ast.FunctionDef, ast.ClassDef)):
            return states
        return self.simple(st, states)


def _conj(e):
    if isinstance(e, ast.BoolOp) and isinstance(e.op, ast.And):
        out = []
        for v in e.values:
            out.extend(_conj(v))
        return out
    return [e]


def _atom(e):
    neg = False
    while isinstance(e, ast.UnaryOp) and isinstance(e.op, ast.Not):
        neg = not neg
        e = e.operand
    if isinstance(e, ast.Name):
        return ("!" if neg else "") + "flag:" + e.id
    if isinstance(e, ast.Compare) and len(e.ops) == 1:
        op, a, b = e.ops[0], e.left, e.comparators[0]
        ta, tb = pyfront.unparse(a), pyfront.unparse(b)
        eq = isinstance(op, (ast.Is, ast.Eq)) != neg
        ne = isinstance(op, (ast.IsNot, ast.NotEq)) != neg
        if isinstance(a, ast.Name) and tb == "None" and isinstance(op, (ast.Is, ast.IsNot)):
            return "flag:" + a.id if ne else "!flag:" + a.id
        if ta.startswith("len(") and tb == "1" and isinstance(op, (ast.Eq, ast.NotEq)):
            return "len==1" if (isinstance(op, ast.Eq) != neg) else "len!=1"
        if ta.endswith("._p_oid") and tb == "None":
            return "oid==NULL" if eq else "oid!=NULL"
        if ta.startswith("type(") and (tb == "self._bucket_type" or tb.startswith("type(")):
            if tb == "self._bucket_type":
                return "child-is-leaf" if eq else "child-is-tree"
            return "child-is-tree" if eq else "child-is-leaf"
    return "other:" + pyfront.unparse(e)[:60]


def _expand_cond(test, fn, members, depth=0):
    """conjuncts of a condition, with locals that name a condition, predicate
    methods (`return <condition>`) and guard-clause selectors (`if T: return
    None` ... `return x`, tested with `is not None`) expanded"""
    if depth > 4:
        return [test]
    if isinstance(test, ast.BoolOp) and isinstance(test.op, ast.And):
        out = []
        for v in test.values:
            out.extend(_expand_cond(v, fn, members, depth + 1))
        return out
    if isinstance(test, ast.Name):
        defs = [a.value for a in ast.walk(fn) if isinstance(a, ast.Assign) and len(a.targets) == 1
                and isinstance(a.targets[0], ast.Name) and a.targets[0].id == test.id]
        if len(defs) == 1 and not isinstance(defs[0], ast.Call):
            return _expand_cond(defs[0], fn, members, depth + 1)
        return [test]

    def helper_of(call):
        if isinstance(call, ast.Call) and isinstance(call.func, ast.Attribute) and \
                isinstance(call.func.value, ast.Name) and call.func.value.id == "self":
            m = members.get(call.func.attr)
            if isinstance(m, ast.FunctionDef):
                return m
        return None
    h = helper_of(test)
    if h is not None:
        body = [st for st in h.body if not (isinstance(st, ast.Expr) and isinstance(st.value, ast.Constant))]
        if len(body) == 1 and isinstance(body[0], ast.Return) and body[0].value is not None:
            return _expand_cond(body[0].value, h, members, depth + 1)
    if isinstance(test, ast.Compare) and len(test.ops) == 1 and isinstance(test.ops[0], ast.IsNot) and \
            isinstance(test.comparators[0], ast.Constant) and test.comparators[0].value is None:
        x = test.left
        if isinstance(x, ast.Name):
            defs = [a.value for a in ast.walk(fn) if isinstance(a, ast.Assign) and len(a.targets) == 1
                    and isinstance(a.targets[0], ast.Name) and a.targets[0].id == x.id]
            if len(defs) == 1:
                x = defs[0]
        h = helper_of(x)
        if h is not None:
            body = [st for st in h.body if not (isinstance(st, ast.Expr) and isinstance(st.value, ast.Constant))]
            conds = []
            ok = True
            for st in body[:-1]:
                if isinstance(st, ast.If) and not st.orelse and len(st.body) == 1 and isinstance(st.body[0], ast.Return) \
                        and (st.body[0].value is None or (isinstance(st.body[0].value, ast.Constant)
                                                           and st.body[0].value.value is None)):
                    conds.append(ast.UnaryOp(op=ast.Not(), operand=st.test))
                elif isinstance(st, ast.Assign):
                    continue
                else:
                    ok = False
            if ok and body and isinstance(body[-1], ast.Return) and body[-1].value is not None and conds:
                out = []
                for c in conds:
                    out.extend(_expand_cond(c, h, members, depth + 1))
                return out
    return [test]


def check(res):
    tree = pyfront.module(REL)
    cls = pyfront.classes(tree)
    REGISTERING_HELPERS.clear()
    for c0 in cls.values():
        for fn0 in c0.body:
            if isinstance(fn0, ast.FunctionDef) and not fn0.name.startswith("__"):
                # unconditional: a top-level simple statement of the method registers self
                for st0 in fn0.body:
                    if isinstance(st0, (ast.Assign, ast.AugAssign)) and any(
                            k == "R" for k, _t in _events(st0, set(), set())):
                        REGISTERING_HELPERS.add(fn0.name)
    n_methods = n_mut = 0
    accepted = []
    for cname in PERSISTENT_CLASSES:
        c = cls.get(cname)
        if c is None:
            raise AnalysisError("anchor vanished: class %s in _base.py" % cname)
        for mname, fn in pyfront.class_members(c).items():
            if not isinstance(fn, ast.FunctionDef) or mname in EXEMPT_METHODS:
                continue
            lists, items = _aliases(fn)
            w = _Walker(lists, items)
            end = w.block(fn.body, {((), False)})
            exits = w.exits | end
            n_methods += 1
            seen = set()
            for m, r in exits:
                if m:
                    n_mut += 1
                if not m or r:
                    continue
                for txt in m:
                    if (cname, mname, txt) in ACCEPTED:
                        accepted.append({"class": cname, "method": mname, "stmt": txt,
                                         "reason": ACCEPTED[(cname, mname, txt)]})
                        continue
                    if txt in seen:
                        continue
                    seen.add(txt)
                    line = fn.lineno
                    for n in ast.walk(fn):
                        if isinstance(n, ast.stmt) and pyfront.unparse(n) == txt:
                            line = n.lineno
                    res.findings.add(dict(
                        rule="PY-CHANGED-FOLLOWS", function="%s.%s" % (cname, mname),
                        file=REL, line=line, construct=txt,
                        detail="in-place mutation `%s` reaches a normal return "
                               "of %s.%s on a path with neither "
                               "self._p_changed = True nor a persistent "
                               "attribute assignment: the change is not "
                               "stored at commit" % (txt, cname, mname), path=[]))
    res.count("PY-CHANGED-FOLLOWS", n_mut)
    res.floor("Python methods with in-place mutation exits", n_mut, 8)
    res.extra["py_methods_analysed"] = n_methods
    res.extra["py_accepted_idioms"] = accepted

    # ---- PY-EMBEDDED-LEAF -----------------------------------------------------
    t = cls["_Tree"]
    mem = pyfront.class_members(t)
    gs = mem.get("__getstate__")
    if not isinstance(gs, ast.FunctionDef):
        raise AnalysisError("anchor vanished: _Tree.__getstate__")
    embed = None
    for n in ast.walk(gs):
        if isinstance(n, ast.If) and any(
                isinstance(x, ast.Attribute) and x.attr == "__getstate__"
                for b in n.body for x in ast.walk(b)):
            embed = set(_atom(c2) for c in _conj(n.test) for c2 in _expand_cond(c, gs, mem))
    if embed is None:
        raise AnalysisError("anchor vanished: embedded-leaf branch of _Tree.__getstate__")
    res.extra["py_embed_atoms"] = sorted(embed)
    if not any(a.startswith("other:") for a in embed):
        res.findings.add(dict(
            rule="PY-EMBEDDED-LEAF", function="_Tree.__getstate__", file=REL, line=gs.lineno,
            construct="embedded form not restricted to the root",
            detail="the single leaf is written inline under (%s) - conditions an interior node "
                   "with one child satisfies too; there the leaf is also referenced by its "
                   "predecessor's _next, gets an oid when that predecessor is written later in "
                   "the same commit and is stored twice" % ", ".join(sorted(embed)), path=[]))
    for mname, dele in (("_set", "_set"), ("_del", "_del")):
        fn = mem.get(mname)
        if not isinstance(fn, ast.FunctionDef):
            raise AnalysisError("anchor vanished: _Tree.%s" % mname)
        mark = None
        defs1 = {}
        for a in ast.walk(fn):
            if isinstance(a, ast.Assign) and len(a.targets) == 1 and isinstance(a.targets[0], ast.Name):
                defs1.setdefault(a.targets[0].id, []).append(a.value)

        def named(t, depth=0):
            """a test given as a local that names the condition"""
            if isinstance(t, ast.Name) and len(defs1.get(t.id, ())) == 1 and depth < 3:
                return named(defs1[t.id][0], depth + 1)
            if isinstance(t, ast.BoolOp) and isinstance(t.op, ast.And):
                vals = []
                for v in t.values:
                    r = named(v, depth + 1)
                    vals.extend(r.values if isinstance(r, ast.BoolOp) and isinstance(r.op, ast.And) else [r])
                return ast.BoolOp(op=ast.And(), values=vals)
            return t
        for n in ast.walk(fn):
            test = named(n.test) if isinstance(n, ast.If) else None
            if isinstance(n, ast.If):
                exp = _expand_cond(test, fn, mem)
                test = ast.BoolOp(op=ast.And(), values=exp) if len(exp) > 1 else exp[0]
            if isinstance(n, ast.If) and any(
                    isinstance(x, ast.Attribute) and x.attr == "_p_oid"
                    for x in ast.walk(test)):
                regs = [e for b in n.body for e in _events(b, set(), set()) if e[0] == "R"]
                if regs:
                    mark = set(_atom(c2) for c in _conj(test) for c2 in _expand_cond(c, fn, mem))
                    line = n.lineno
        res.count("PY-EMBEDDED-LEAF", 1)
        if mark is None:
            res.findings.add(dict(
                rule="PY-EMBEDDED-LEAF", function="_Tree.%s" % mname, file=REL,
                line=fn.lineno, construct="no oid-guarded self._p_changed",
                detail="_Tree.%s no longer registers the tree when its only, "
                       "oid-less leaf changed" % mname, path=[]))
            continue
        need = set(a for a in mark if not a.startswith(("flag:", "!flag:")))
        other = sorted(a for a in need if a.startswith("other:"))
        missing = sorted(a for a in need if a not in embed and not a.startswith("other:"))
        if other:
            res.findings.add(dict(
                rule="PY-EMBEDDED-LEAF", function="_Tree.%s" % mname, file=REL, line=line,
                construct="mark guard has extra condition %s" % other[0],
                detail="registration of the tree depends on a condition the "
                       "embedding test of __getstate__ does not have", path=[]))
        if missing:
            res.findings.add(dict(
                rule="PY-EMBEDDED-LEAF", function="_Tree.__getstate__", file=REL,
                line=gs.lineno, construct="embed guard lacks %s (vs %s)" % (",".join(missing), mname),
                detail="__getstate__ embeds the only leaf under %s but %s "
                       "registers the tree only under %s" % (sorted(embed), mname, sorted(mark)),
                path=[]))
        res.samples.append({"rule": "PY-EMBEDDED-LEAF", "method": mname,
                            "mark_atoms": sorted(mark), "embed_atoms": sorted(embed)})
