"""SIZE-WIRING / SPLIT-POINT (C03, C09): the split thresholds and split points
of the two implementations, extracted as small fact tables and compared with
the specification (leaf > max_leaf_size, interior child > max_internal_size,
root >= 2 * max_internal_size, default split index len/2, non-positive sizes
rejected) and with each other."""
import ast

from ..cir import strip, path, callee, text, const_int
from ..common import AnalysisError, SRC
from .. import pyfront

REL = SRC + "/_base.py"

SPEC = {
    "tree_child": (">", "max_internal_size"),
    "leaf_child": (">", "max_leaf_size"),
    "root": (">=", 2, "max_internal_size"),
    "split_point": "len/2",
    "reject_nonpositive": True,
}


def _attr_of_size_fn(tu, fname):
    """which attribute name string a _max_*_size helper reads"""
    fn = tu.funcs.get(fname)
    if fn is None:
        return None
    for n in fn.walk():
        if n.k == "CallExpr" and callee(n) == ("fn", "_get_max_size"):
            a = strip(n.kids[2])
            if a is not None and a.k == "DeclRefExpr":
                return a.n.replace("_str", "")
    return None


def _size_source(fn, var, tu):
    """max_* attribute behind local `var` (initialised from a helper call)"""
    srcs = set()
    for n in fn.walk():
        c = None
        if n.k == "VarDecl" and n.n == var and n.kids and n.kids[-1].k != "Absent":
            c = strip(n.kids[-1])
        elif n.k == "BinaryOperator" and n.v == "=" and path(n.kids[0]) == var:
            c = strip(n.kids[1])
        if c is not None and c.k == "CallExpr" and callee(c)[0] == "fn":
            srcs.add(_attr_of_size_fn(tu, callee(c)[1]))
    srcs.discard(None)
    return srcs.pop() if len(srcs) == 1 else None


def c_facts(tu):
    facts, findings = {}, []
    n = 0
    fn = tu.func("_BTree_set")
    # The too-big decision per child kind: _BTree_set (and the helpers it
    # calls) is walked once with "the child is a tree" and once with "the
    # child is a leaf" deciding the child-kind tests; locals assigned from a
    # _max_*_size helper carry that attribute; the comparison of the child's
    # length with such a local is the fact.
    for kind in ("tree_child", "leaf_child"):
        hits = []

        def walk(node, env, depth):
            k = node.k
            if k == "IfStmt":
                ct = text(node.kids[0])
                if "Py_TYPE" in ct and "==" in ct or "Py_TYPE" in ct and "!=" in ct:
                    c0 = strip(node.kids[0])
                    neg = False
                    while c0 is not None and c0.k == "UnaryOperator" and c0.v == "!":
                        neg = not neg
                        c0 = strip(c0.kids[0])
                    if c0 is not None and c0.k == "BinaryOperator" and c0.v in ("==", "!="):
                        same = (c0.v == "==") != neg          # true iff "child has self's type"
                        take = (kind == "tree_child") == same
                        walk(node.kids[0], env, depth)
                        if take:
                            walk(node.kids[1], env, depth)
                        elif len(node.kids) > 2:
                            walk(node.kids[2], env, depth)
                        return
                for c in node.kids:
                    walk(c, env, depth)
                return
            if k == "ConditionalOperator":
                ct = text(node.kids[0])
                c0 = strip(node.kids[0])
                if "Py_TYPE" in ct and c0 is not None and c0.k == "BinaryOperator" and c0.v in ("==", "!="):
                    same = c0.v == "=="
                    take = (kind == "tree_child") == same
                    walk(node.kids[1] if take else node.kids[2], env, depth)
                    return
            if k == "VarDecl" and node.kids and node.kids[-1].k != "Absent":
                walk(node.kids[-1], env, depth)
                src = size_attr(node.kids[-1], env, depth)
                if src:
                    env[node.n] = src
                return
            if k == "BinaryOperator" and node.v == "=":
                walk(node.kids[1], env, depth)
                lp = path(node.kids[0])
                src = size_attr(node.kids[1], env, depth)
                if lp and src:
                    env[lp] = src
                return
            if k == "BinaryOperator" and node.v in (">", ">=", "<", "<="):
                a, b = node.kids
                sa_, sb_ = env.get(path(a) or ""), env.get(path(b) or "")
                ca, cb = const_int(a), const_int(b)
                if sb_ and ca is None and not sa_:
                    hits.append((node.v, sb_, path(a) or text(a)))
                elif sa_ and cb is None and not sb_:
                    flip = {">": "<", "<": ">", ">=": "<=", "<=": ">="}[node.v]
                    hits.append((flip, sa_, path(b) or text(b)))
            if k == "CallExpr" and callee(node)[0] == "fn":
                cn = callee(node)[1]
                if cn in tu.funcs and cn not in ("_BTree_set", "BTree_grow", "_bucket_set") and depth < 3 \
                        and not cn.startswith("_max_") and cn != "_get_max_size":
                    params = tu.params(cn)
                    env2 = {}
                    for p0, a in zip(params, node.kids[1:]):
                        pa = path(a)
                        env2[p0.n] = env.get(pa or "", None)
                        if pa and ("childlength" in pa or "len" in pa):
                            env2["@len:" + p0.n] = True
                    walk(tu.body(cn), env2, depth + 1)
            for c in node.kids:
                walk(c, env, depth)

        def size_attr(e, env, depth):
            e0 = strip(e)
            if e0 is not None and e0.k == "CallExpr" and callee(e0)[0] == "fn":
                return _attr_of_size_fn(tu, callee(e0)[1])
            if e0 is not None and e0.k == "ConditionalOperator":
                ct = text(e0.kids[0])
                c0 = strip(e0.kids[0])
                if "Py_TYPE" in ct and c0 is not None and c0.k == "BinaryOperator" and c0.v in ("==", "!="):
                    take = (kind == "tree_child") == (c0.v == "==")
                    return size_attr(e0.kids[1] if take else e0.kids[2], env, depth)
            p = path(e)
            return env.get(p) if p else None
        walk(tu.body("_BTree_set"), {}, 0)
        hits = sorted(set(h for h in hits if h[0] in (">", ">=")))
        if len(hits) == 1:
            op, attr, lhs = hits[0]
            facts[kind] = (op, attr) if "childlength" in lhs or lhs.endswith("len") else (op, attr, "compares " + lhs)
        elif hits:
            facts[kind] = ("ambiguous",) + tuple(hits)
    if "tree_child" not in facts or "leaf_child" not in facts:
        raise AnalysisError("unrecognised idiom: too-big test of _BTree_set in %s" % tu.stub)
    g = tu.func("BTree_grow")
    for c in g.walk():
        if c.k == "BinaryOperator" and c.v in (">=", ">") and path(c.kids[0]) == "self->len":
            r = strip(c.kids[1])
            if r.k == "BinaryOperator" and r.v == "*":
                a, b = strip(r.kids[0]), strip(r.kids[1])
                var = a if const_int(a) is None else b
                k = const_int(b) if const_int(a) is None else const_int(a)
                facts["root"] = (c.v, k, _size_source(g, path(var), tu))
    if "root" not in facts:
        raise AnalysisError("unrecognised idiom: root split test of BTree_grow")
    gm = tu.func("_get_max_size")
    rej = False
    for ifs in gm.walk():
        if ifs.k == "IfStmt" and "isize <= 0" in text(ifs.kids[0]) and any(
                x.k == "ReturnStmt" and const_int(x.kids[0]) == -1 for x in ifs.kids[1].walk()):
            rej = True
    facts["reject_nonpositive"] = rej
    # split points
    sp = {}
    for name in ("bucket_split", "BTree_split"):
        f = tu.func(name)
        pt = None
        for a in f.walk():
            if a.k == "BinaryOperator" and a.v == "=" and path(a.kids[0]) == "index":
                r = strip(a.kids[1])
                if r.k == "BinaryOperator" and r.v in ("/", ">>"):
                    pt = "%s%s%s" % ("len" if path(r.kids[0]) == "self->len" else text(r.kids[0]),
                                     "/" if r.v == "/" else ">>", text(r.kids[1]))
                else:
                    pt = text(r)
        sp[name] = "len/2" if pt in ("len/2", "len>>1") else pt
    facts["split_point"] = sp
    for key in ("tree_child", "leaf_child", "root", "reject_nonpositive"):
        n += 1
        if tuple(facts[key]) != tuple(SPEC[key]) if isinstance(SPEC[key], tuple) else facts[key] != SPEC[key]:
            findings.append(dict(
                rule="SIZE-WIRING", function="_BTree_set/BTree_grow", file="src/BTrees/BTreeTemplate.c",
                line=fn.l, construct="%s is %s (specified: %s)" % (key, facts[key], SPEC[key]),
                detail="the split threshold `%s` of the C implementation is "
                       "%s; the property (and the Python implementation) "
                       "require %s" % (key, facts[key], SPEC[key]), path=[]))
    for name, pt in sp.items():
        n += 1
        if pt != "len/2":
            findings.append(dict(
                rule="SPLIT-POINT", function=name, file=tu.funcs[name].f, line=tu.funcs[name].l,
                construct="default split index of %s is %s" % (name, pt),
                detail="nodes must be split at len/2 so that both "
                       "implementations build the same shape", path=[]))
    return dict(facts={k: (list(v) if isinstance(v, tuple) else v) for k, v in facts.items()},
                findings=findings, n=n)


def py_facts():
    tree = pyfront.base_py()
    cls = pyfront.classes(tree)
    t = pyfront.class_members(cls["_Tree"])
    facts = {}
    s = t.get("_set")
    g = t.get("_grow")
    if not isinstance(s, ast.FunctionDef) or not isinstance(g, ast.FunctionDef):
        raise AnalysisError("anchor vanished: _Tree._set/_grow")
    # which class attribute is the limit, for a child that is a tree / a leaf: the
    # assignments to max_size are followed through if statements, conditional
    # expressions and locals that name the child-kind test
    # the local that holds the limit: the other side of the comparison with the child's size
    limvar = "max_size"
    for c in ast.walk(s):
        if isinstance(c, ast.Compare) and len(c.ops) == 1:
            for a, b in ((c.left, c.comparators[0]), (c.comparators[0], c.left)):
                if isinstance(b, ast.Name) and any(isinstance(x, ast.Attribute) and x.attr == "size"
                                                   for x in ast.walk(a)):
                    limvar = b.id
    KIND_TESTS = ("type(child) is type(self)", "type(self) is type(child)", "isinstance(child, type(self))",
                  "type(child) is self.__class__")
    LEAF_TESTS = ("type(child) is self._bucket_type", "isinstance(child, self._bucket_type)")
    one_def = {}
    for a in ast.walk(s):
        if isinstance(a, ast.Assign) and len(a.targets) == 1 and isinstance(a.targets[0], ast.Name):
            one_def.setdefault(a.targets[0].id, []).append(a.value)

    class _Sub(ast.NodeTransformer):
        def visit_Name(self, n):
            d = one_def.get(n.id, ())
            if isinstance(n.ctx, ast.Load) and len(d) == 1 and pyfront.unparse(d[0]) in (
                    "type(self)", "self._bucket_type", "self.__class__"):
                return d[0]
            return n

    def _subst_locals(t):
        import copy as _copy
        return _Sub().visit(_copy.deepcopy(t))

    def kind_cond(t, is_tree, depth=0):
        if isinstance(t, ast.UnaryOp) and isinstance(t.op, ast.Not):
            v = kind_cond(t.operand, is_tree, depth)
            return None if v is None else not v
        u = pyfront.unparse(_subst_locals(t))
        if u in KIND_TESTS:
            return is_tree
        if u in LEAF_TESTS:
            return not is_tree
        if isinstance(t, ast.Name) and len(one_def.get(t.id, ())) == 1 and depth < 3:
            return kind_cond(one_def[t.id][0], is_tree, depth + 1)
        return None

    def limit_of(is_tree):
        found = [None]

        def val(e):
            if isinstance(e, ast.IfExp):
                c = kind_cond(e.test, is_tree)
                if c is None:
                    return None
                return val(e.body if c else e.orelse)
            return pyfront.unparse(e).split(".")[-1]

        def walk(stmts):
            for st in stmts:
                if isinstance(st, ast.If):
                    c = kind_cond(st.test, is_tree)
                    if c is None:
                        walk(st.body)
                        walk(st.orelse)
                    else:
                        walk(st.body if c else st.orelse)
                elif isinstance(st, ast.Assign) and pyfront.unparse(st.targets[0]) == limvar:
                    found[0] = val(st.value)
                elif isinstance(st, (ast.For, ast.While, ast.Try, ast.With)):
                    for sub in ast.iter_child_nodes(st):
                        if isinstance(sub, list):
                            walk(sub)
                    walk(getattr(st, "body", []))
        walk(s.body)
        return found[0]
    facts["_tree"] = limit_of(True)
    facts["_leaf"] = limit_of(False)
    for c in ast.walk(s):
        if isinstance(c, ast.Compare) and pyfront.unparse(c.comparators[0]) == limvar:
            op = {ast.Gt: ">", ast.GtE: ">=", ast.Lt: "<", ast.LtE: "<="}.get(type(c.ops[0]))
            lhs = pyfront.unparse(c.left)
            facts["tree_child"] = (op, facts.get("_tree")) + (() if lhs == "child.size" else ("compares " + lhs,))
            facts["leaf_child"] = (op, facts.get("_leaf")) + (() if lhs == "child.size" else ("compares " + lhs,))
    def _is_len_of_data(e, fn):
        """len(self._data) or len(<local / parameter standing for the node's data list>)"""
        if not (isinstance(e, ast.Call) and isinstance(e.func, ast.Name) and e.func.id == "len" and e.args):
            return False
        a = e.args[0]
        if pyfront.unparse(a) == "self._data":
            return True
        if isinstance(a, ast.Name):
            for st in ast.walk(fn):
                if isinstance(st, ast.Assign) and any(isinstance(t, ast.Name) and t.id == a.id for t in st.targets) \
                        and pyfront.unparse(st.value) == "self._data":
                    return True
            if a.id in [x.arg for x in fn.args.args] and a.id in ("data",):
                return True
        return False
    def _guard_negated(c, fn):
        """the comparison is the test of `if T: return` in front of the split"""
        par = getattr(c, "_parent", None)
        while par is not None and not isinstance(par, ast.If):
            if isinstance(par, ast.UnaryOp) and isinstance(par.op, ast.Not):
                return None          # not handled: leave to the caller
            par = getattr(par, "_parent", None)
        if isinstance(par, ast.If) and par.test is c and not par.orelse and len(par.body) == 1 and \
                isinstance(par.body[0], ast.Return):
            return True
        return False
    NEG = {">": "<=", ">=": "<", "<": ">=", "<=": ">"}
    for c in ast.walk(g):
        if isinstance(c, ast.Compare) and _is_len_of_data(c.left, g):
            op = {ast.Gt: ">", ast.GtE: ">=", ast.Lt: "<", ast.LtE: "<="}.get(type(c.ops[0]))
            if _guard_negated(c, g):
                op = NEG.get(op, op)
            r = c.comparators[0]
            if isinstance(r, ast.BinOp) and isinstance(r.op, ast.Mult):
                a, b = r.left, r.right
                k = b.value if isinstance(b, ast.Constant) else a.value
                v = a if isinstance(b, ast.Constant) else b
                facts["root"] = (op, k, pyfront.unparse(v).split(".")[-1])
    if "tree_child" not in facts or "root" not in facts:
        raise AnalysisError("unrecognised idiom: size tests of _Tree._set/_grow")
    sp = {}
    for kind, cname in (("Bucket", "Bucket"), ("Set", "Set"), ("Tree", "_Tree")):
        f = None
        seen_c = set()
        todo = [cname]
        while todo and f is None:          # the method may live in a base class
            cn = todo.pop(0)
            if cn in seen_c or cn not in cls:
                continue
            seen_c.add(cn)
            m = pyfront.class_members(cls[cn]).get("_split")
            if isinstance(m, ast.FunctionDef):
                f = m
            todo.extend(b.id for b in cls[cn].bases if isinstance(b, ast.Name))
        if not isinstance(f, ast.FunctionDef):
            raise AnalysisError("anchor vanished: %s._split" % cname)
        # a _split that delegates the cut to a base class's _split: the split point is decided there
        for hop in range(3):
            dele = [c for c in ast.walk(f) if isinstance(c, ast.Call) and isinstance(c.func, ast.Attribute)
                    and c.func.attr == "_split" and isinstance(c.func.value, ast.Name) and c.func.value.id in cls
                    and c.args and pyfront.unparse(c.args[0]) == "self"]
            if not dele:
                break
            m = pyfront.class_members(cls[dele[0].func.value.id]).get("_split")
            if not isinstance(m, ast.FunctionDef) or m is f:
                break
            f = m
        pt = None

        def default_point(v, owner, depth=0):
            """the split index used when none is given: `len(..) // 2`, possibly
            computed by a helper method (its fall-through return) and through a
            local holding the length"""
            if isinstance(v, ast.Call) and isinstance(v.func, ast.Attribute) and \
                    isinstance(v.func.value, ast.Name) and v.func.value.id == "self" and depth < 3:
                for cn2 in cls:
                    m2 = pyfront.class_members(cls[cn2]).get(v.func.attr)
                    if isinstance(m2, ast.FunctionDef):
                        rets = [r.value for r in ast.walk(m2) if isinstance(r, ast.Return) and r.value is not None]
                        for r in reversed(rets):
                            d = default_point(r, m2, depth + 1)
                            if d and "//2" in d:
                                return d
                return pyfront.unparse(v).replace(" ", "")
            if isinstance(v, ast.BinOp) and isinstance(v.op, ast.FloorDiv) and isinstance(v.left, ast.Name):
                defs = [a2.value for a2 in ast.walk(owner) if isinstance(a2, ast.Assign) and len(a2.targets) == 1
                        and isinstance(a2.targets[0], ast.Name) and a2.targets[0].id == v.left.id]
                if len(defs) == 1:
                    return "%s//%s" % (pyfront.unparse(defs[0]).replace(" ", ""), pyfront.unparse(v.right))
            return pyfront.unparse(v).replace(" ", "")
        for a in ast.walk(f):
            if isinstance(a, ast.Assign) and pyfront.unparse(a.targets[0]) == "index":
                pt = default_point(a.value, f)
        import re as _re
        sp[cname + "._split"] = "len/2" if pt and _re.match(
            r"^len\((self\._keys|self\._data|data|keys)\)//2$", pt) else pt
    facts["split_point"] = sp
    facts.pop("_tree", None)
    facts.pop("_leaf", None)
    return facts


def py_check(res, c_oo_facts):
    facts = py_facts()
    n = 0
    for key in ("tree_child", "leaf_child", "root"):
        n += 1
        if tuple(facts[key]) != tuple(SPEC[key]):
            res.findings.add(dict(
                rule="SIZE-WIRING", function="_Tree._set/_grow", file=REL, line=1,
                construct="%s is %s (specified: %s)" % (key, facts[key], SPEC[key]),
                detail="the split threshold `%s` of the Python implementation "
                       "is %s; required: %s (and the C implementation: %s)"
                       % (key, facts[key], SPEC[key], c_oo_facts.get(key)), path=[]))
    for name, pt in facts["split_point"].items():
        n += 1
        if pt != "len/2":
            res.findings.add(dict(
                rule="SPLIT-POINT", function=name, file=REL, line=1,
                construct="default split index of %s is %s" % (name, pt),
                detail="nodes must be split at len//2 so that both "
                       "implementations build the same shape", path=[]))
    res.count("PY-SIZE-WIRING", n)
    res.extra["python_size_facts"] = {k: (list(v) if isinstance(v, tuple) else v)
                                     for k, v in facts.items()}
    return facts


def c_read_translation(tu):
    from . import excstate
    return excstate.analyse_tu(tu)
