"""REAL-TYPE (C16, C10): an object is treated as one of the unit's C structs
only after a test of its *real* type.

`PyObject_IsInstance(x, T)` asks `x.__class__`, and the pure-Python classes of
this package define `__class__` as a property that names the *C* class (so
that they pickle under the C class's name): `isinstance(OOSetPy(), OOSet)` is
true.  Every use of PyObject_IsInstance against one of the unit's own type
objects (BucketType, SetType, BTreeType, TreeSetType, or a PyTypeObject*
variable such as the leaf type) is the gate in front of a cast to Bucket* /
BTree*: behind it a pure-Python operand is read as a C struct - wrong results
(`union(OOSetPy([1,2,3]), OOSet([2,3,4]))` = [2,3,4]) or a crash, and a C tree
accepts Python leaves as children in `__setstate__`.  The subclass-tolerant
test of the real type is PyObject_TypeCheck (PyType_IsSubtype of Py_TYPE(x)).

Rule: no call PyObject_IsInstance(x, T) with T the address of a type object
defined in the unit or a value of type PyTypeObject*.  The real-type tests
(PyObject_TypeCheck, Py_TYPE comparisons) against such T are counted.
"""
from ..cir import strip, callee, text, path


def _unit_type(tu, e):
    """name of the unit's type object the expression denotes, or None"""
    e = strip(e)
    if e is None:
        return None
    if e.k == "UnaryOperator" and e.v == "&":
        n = path(e.kids[0])
        g = tu.globals.get(n) if n else None
        if g is not None and ("PyTypeObject" in (g.t or "") or "_typeobject" in (g.t or "")):
            return n
        return None
    if e.k == "DeclRefExpr" and ("PyTypeObject" in (e.t or "") or "_typeobject" in (e.t or "")) and "*" in (e.t or ""):
        return e.n
    return None


def analyse_tu(tu):
    findings = []
    real = 0
    for name in tu.order:
        fn = tu.funcs[name]
        for n in fn.walk():
            if n.k != "CallExpr":
                continue
            c = callee(n)
            if c[0] != "fn" or len(n.kids) < 3:
                continue
            if c[1] == "PyObject_IsInstance":
                t = _unit_type(tu, n.kids[2])
                if t is not None:
                    findings.append(dict(
                        rule="REAL-TYPE", function=name, file=n.f, line=n.l,
                        construct="PyObject_IsInstance(%s, %s) in %s decides whether the object is read as a C struct"
                                  % (text(strip(n.kids[1]))[:30], t, name),
                        detail="PyObject_IsInstance consults __class__, which the pure-Python classes "
                               "override to name the C class: a *Py object passes the test and is then "
                               "cast to Bucket* / BTree* (wrong results, crash, Python leaves inside a C "
                               "tree). PyObject_TypeCheck tests the real type and still accepts "
                               "subclasses", path=[]))
            elif c[1] in ("PyObject_TypeCheck", "PyType_IsSubtype", "Py_IS_TYPE"):
                if _unit_type(tu, n.kids[2]) is not None:
                    real += 1
    return dict(findings=findings, stats={"real_type_tests": real})
