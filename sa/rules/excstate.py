"""READ-ABSENCE / WRITE-TYPEERROR (C09): abstract pending-exception state.

For every exit of a C entry point reached after a key/value conversion has
failed (status variable set to 0 inside a COPY_*_FROM_ARG expansion), the pair
(return value class, pending exception class) must be what the property
states: lookups report absence ([] -> KeyError, get -> the default with no
exception, in / has_key -> false with no exception), writes fail with
TypeError.  Pending-exception domain: none / TypeError / KeyError /
OverflowError / other; callee effects come from per-call-site summaries
specialised on constant arguments.
"""
from ..cir import strip, strip_parens, path, callee, text, const_int
from ..cfg import CFG
from ..flow import Analysis, sget, sset, sdel
from ..common import AnalysisError
from .. import ctables
from .changed import status_vars, CONV_MACROS

SETTERS = ("PyErr_SetString", "PyErr_SetObject", "PyErr_Format")
# external converters: (exception raised, value returned with it)
EXT_RAISES = {"PyLong_AsLong": (("OverflowError", -1),),
              "PyLong_AsUnsignedLongLong": (("OverflowError", (1 << 64) - 1),),
              "PyLong_AsLongLongAndOverflow": ()}


def _exc_name(e):
    e = strip(e)
    if e is not None and e.k == "DeclRefExpr" and (e.n or "").startswith("PyExc_"):
        return e.n[len("PyExc_"):]
    return "other"


class ExcAnalysis(Analysis):
    def __init__(self, cfg, tu, ctx, constargs, entry_x="none"):
        self.ctx = ctx
        self.entry_x = entry_x
        self.constargs = constargs     # {param name: int}
        Analysis.__init__(self, cfg, tu)
        self.svars = status_vars(cfg.fn)
        self.exits = set()
        self.live = self._flag_liveness()

    def initial(self):
        st = frozenset([("x", self.entry_x)])
        for p, v in self.constargs.items():
            st = sset(st, "f:" + p, v)
        return st

    def extra_uses(self, node):
        out = set(getattr(self, "svars", ()))
        out |= set(self.constargs)
        if node.kind == "return" and node.e is not None:
            for n in node.e.walk():
                if n.k == "DeclRefExpr" and self.is_flag_var(n.n):
                    out.add(n.n)
        # variables receiving summarised call results stay live until tested
        return out

    def flag_value_of(self, e, st):
        e0 = strip(e)
        if e0 is not None and e0.k == "CallExpr":
            v = sget(st, "ret:%s:%s" % (e0.l, e0.c))
            if v is not None:
                return v
            if callee(e0) in (("fn", "PyBool_FromLong"), ("fn", "Py_NewRef")):
                return "NN"         # never NULL
        return Analysis.flag_value_of(self, e, st)

    def _kill_calls(self, e, st):
        """&v passed to a call: forget v - unless the callee's summary has
        just told us what it stored there (marker k:<v> set in _call)."""
        for n in e.walk():
            if n.k == "UnaryOperator" and n.v == "&":
                b = strip(n.kids[0])
                if b is not None and b.k == "DeclRefExpr" and sget(st, "f:" + b.n) is not None:
                    if sget(st, "k:" + b.n):
                        st = sdel(st, "k:" + b.n)
                    else:
                        st = sdel(st, "f:" + b.n)
        return st

    def const_call(self, call, st=None):
        if st is None:
            return None
        v = sget(st, "ret:%s:%s" % (call.l, call.c))
        return v if isinstance(v, int) else None

    def _calls(self, e):
        return [n for n in e.walk() if n.k == "CallExpr"]

    def on_node(self, node, st):
        e = node.e
        if e is None:
            return [st]
        states = [st]
        # post-order over calls
        for c in self._calls(e)[::-1]:
            cal = callee(c)
            new = []
            for s in states:
                new.extend(self._call(node, s, c, cal))
            states = new
        out = []
        params = self.ctx["params"].get(self.cfg.name, [])
        for s in states:
            for n in e.walk():
                # *param = constant : an out-parameter the caller may test
                if n.k == "BinaryOperator" and n.v == "=":
                    l1 = strip(n.kids[0])
                    if l1 is not None and l1.k == "UnaryOperator" and l1.v == "*":
                        b1 = strip(l1.kids[0])
                        if b1 is not None and b1.k == "DeclRefExpr" and b1.n in params:
                            cv = const_int(n.kids[1])
                            s = sset(s, "o:" + b1.n, cv) if cv is not None else sdel(s, "o:" + b1.n)
                if n.k == "BinaryOperator" and n.v == "=" and n.mo in CONV_MACROS:
                    l0 = strip(n.kids[0])
                    if l0 is not None and l0.k == "DeclRefExpr" and l0.n in self.svars \
                            and const_int(n.kids[1]) == 0:
                        s = sset(s, "cf", True)
            out.append(s)
        return out

    def _call(self, node, st, c, cal):
        args = c.kids[1:]
        if cal[0] != "fn":
            return [st]
        name = cal[1]
        if name in SETTERS and args:
            return [sset(st, "x", _exc_name(args[0]))]
        if name == "PyErr_Clear":
            return [sset(st, "x", "none")]
        if name == "PyErr_NoMemory":
            return [sset(st, "x", "other")]
        if name in EXT_RAISES:
            outs = [st]
            for ex, errval in EXT_RAISES[name]:
                # the error value comes with the exception
                outs.append(sset(sset(st, "x", ex), "ret:%s:%s" % (c.l, c.c), errval))
            return outs
        if name == "BTree_ShouldSuppressKeyError":
            return [st]             # modelled on the branch edge (exact KeyError)
        if name in self.tu.funcs and name in self.ctx["interesting"] and name != self.cfg.name:
            params = self.ctx["params"][name]
            consts = {}
            for p, a in zip(params, args):
                v = self.flag_value_of(a, st)
                if isinstance(v, int):
                    consts[p] = v
            exits = summary(self.tu, self.ctx, name, consts, sget(st, "x") or "none")
            # the layers pass the same key/value object down: once this frame
            # has converted it successfully, the callee's conversion of it
            # cannot fail
            converted_here = bool(self.svars) and not sget(st, "cf") and \
                all(sget(st, "f:" + v) not in (0, None) for v in self.svars)
            outs = []
            for ret, x, cf, couts in sorted(exits, key=repr):
                if cf and converted_here:
                    continue
                s = sset(st, "x", x if x != "same" else sget(st, "x"))
                if cf:
                    s = sset(s, "cf", True)
                if ret is not None:
                    s = sset(s, "ret:%s:%s" % (c.l, c.c), ret)
                # out-parameters written by the callee: &local at the call site
                written = dict(couts)
                for p, a in zip(params, args):
                    a0 = strip(a)
                    if a0 is not None and a0.k == "UnaryOperator" and a0.v == "&":
                        tgt = strip(a0.kids[0])
                        if tgt is not None and tgt.k == "DeclRefExpr" and self.is_flag_var(tgt.n):
                            if p in written:
                                s = sset(sset(s, "f:" + tgt.n, written[p]), "k:" + tgt.n, 1)
                            else:
                                s = sdel(s, "f:" + tgt.n)
                outs.append(s)
            return outs or [st]
        return [st]

    def on_edge(self, node, label, st):
        if label not in ("T", "F") or node.e is None:
            return st
        e = strip_parens(node.e)
        want = label == "T"
        while e is not None and e.k == "UnaryOperator" and e.v == "!":
            want = not want
            e = strip_parens(e.kids[0])
        e0 = strip(e)
        x = sget(st, "x")
        if e0 is not None and e0.k == "CallExpr":
            cal = callee(e0)
            if cal == ("fn", "PyErr_ExceptionMatches") and len(e0.kids) > 1:
                t = _exc_name(e0.kids[1])
                return st if (x == t) == want else None
            if cal == ("fn", "BTree_ShouldSuppressKeyError"):
                return st if (x == "KeyError") == want else None
            if cal == ("fn", "PyErr_Occurred"):
                return st if (x != "none") == want else None
            v = sget(st, "ret:%s:%s" % (e0.l, e0.c))
            if v is not None:
                truth = (v == "NN") or (v != "NN" and v != 0)
                return st if truth == want else None
        return st

    def _drop_dead(self, succ, st):
        st = Analysis._drop_dead(self, succ, st)
        if any(k.startswith("ret:") for k, _ in st):
            st = frozenset((k, v) for k, v in st if not k.startswith("ret:"))
        return st

    def collect(self):
        for n in self.cfg.returns():
            for st in self.IN.get(n.id, ()):
                sts = self.on_node(n, st) if n.e is not None else [st]
                for s in sts:
                    ret = self.flag_value_of(n.e, s) if n.e is not None else None
                    outs = tuple(sorted((k[2:], v) for k, v in s if k.startswith("o:")))
                    self.exits.add((ret, sget(s, "x"), bool(sget(s, "cf")), outs))


_memo = {}


def summary(tu, ctx, name, consts, entry_x="none"):
    key = (tu.family, name, tuple(sorted(consts.items())), entry_x)
    if key in _memo:
        return _memo[key]
    _memo[key] = set()          # recursion guard
    an = ExcAnalysis(CFG(tu.funcs[name]), tu, ctx, consts, entry_x)
    an.solve()
    an.collect()
    _memo[key] = an.exits
    return an.exits


def interesting_functions(tu):
    """Functions from which a conversion macro or an exception setter is
    reachable (only those need summaries)."""
    from .. import callgraph
    g = callgraph.build(tu)
    base = set()
    for name, fn in tu.funcs.items():
        for n in fn.walk():
            if (n.k == "BinaryOperator" and n.mo in CONV_MACROS) or \
                    (n.k == "CallExpr" and callee(n)[0] == "fn" and
                     callee(n)[1] in SETTERS + ("PyErr_Clear",)):
                base.add(name)
                break
    # helper functions that only translate errors are needed too
    conv = set(name for name, fn in tu.funcs.items()
               if any(n.k == "BinaryOperator" and n.mo in CONV_MACROS for n in fn.walk()))
    # every function that sets, clears or inspects the pending exception is a
    # helper whose effect callers need (translation helpers, converters, ...)
    helpers = set(base)
    for name, fn in tu.funcs.items():
        if any(n.k == "CallExpr" and callee(n)[0] == "fn" and callee(n)[1] in (
                "PyErr_Occurred", "PyErr_ExceptionMatches") for n in fn.walk()):
            helpers.add(name)
    helpers -= set(n for n in helpers if n.startswith(("PyInit_", "module_init", "init_")))
    out = set(conv) | helpers
    changed = True
    while changed:
        changed = False
        for name, cs in g.items():
            if name not in out and cs & out:
                out.add(name)
                changed = True
    return out


# entry point -> predicate on (ret, x) for exits after a failed conversion
def _lookup_spec(slot):
    return {
        "mp_subscript": ("[] with an unusable key", lambda r, x: r == 0 and x == "KeyError", "NULL + KeyError"),
        "get": ("get() with an unusable key", lambda r, x: r in ("NN", None) and x == "none", "the default, no exception"),
        "sq_contains": ("`in` with an unusable key", lambda r, x: r == 0 and x == "none", "0, no exception"),
        "has_key": ("has_key() with an unusable key", lambda r, x: r == "NN" and x == "none", "False, no exception"),
        "mp_ass_subscript": ("item assignment with an unusable key/value", lambda r, x: r == -1 and x == "TypeError", "-1 + TypeError"),
        "insert/add": ("insert()/add() with an unusable key", lambda r, x: r == 0 and x == "TypeError", "NULL + TypeError"),
        "pop/setdefault/remove": ("pop()/setdefault()/remove() with an unusable key", lambda r, x: r == 0 and x == "TypeError", "NULL + TypeError"),
    }[slot]


def analyse_tu(tu):
    _memo.clear()
    ctx = {"interesting": interesting_functions(tu),
           "params": {name: [k.n for k in fn.kids if k.k == "ParmVarDecl"]
                      for name, fn in tu.funcs.items()}}
    types = ctables.type_objects(tu)
    meths = ctables.py_methods(tu)
    findings = []
    n = 0
    seen = set()
    for tname in ("BucketType", "SetType", "BTreeType", "TreeSetType"):
        slots = types.get(tname, {})
        entries = []
        for slot in ("mp_subscript", "sq_contains", "mp_ass_subscript"):
            v = slots.get(slot)
            if v and v[0] == "fn":
                entries.append((slot, v[1]))
        for pyname, slot in (("get", "get"), ("has_key", "has_key"), ("insert", "insert/add"),
                             ("add", "insert/add"), ("pop", "pop/setdefault/remove"),
                             ("setdefault", "pop/setdefault/remove"), ("remove", "pop/setdefault/remove")):
            fn = meths.get((tname, pyname))
            if pyname == "pop" and tname in ("SetType", "TreeSetType"):
                continue        # set.pop() takes no key
            if fn and not (pyname == "insert" and tname == "BTreeType"):
                entries.append((slot, fn))
            elif fn and pyname == "insert":
                entries.append((slot, fn))
        for slot, fname in entries:
            if (slot, fname) in seen or fname not in tu.funcs:
                continue
            seen.add((slot, fname))
            what, pred, want = _lookup_spec(slot)
            exits = summary(tu, ctx, fname, {})
            cf_exits = [(r, x) for r, x, cf, _o in exits if cf]
            n += 1
            for r, x in sorted(cf_exits, key=repr):
                if not pred(r, x):
                    findings.append(dict(
                        rule="READ-ABSENCE" if slot in ("mp_subscript", "get", "sq_contains", "has_key") else "WRITE-TYPEERROR",
                        function=fname, file=tu.funcs[fname].f, line=tu.funcs[fname].l,
                        construct="%s exits with return=%s exception=%s (expected %s)" % (
                            fname, {0: "NULL/0", "NN": "object", -1: "-1"}.get(r, r), x, want),
                        detail="%s: after the key/value conversion failed, %s "
                               "returns %s with pending exception %s; the "
                               "property requires %s" % (what, fname, r, x, want), path=[]))
    return dict(findings=findings, n=n)
