"""READ-ABSENCE / WRITE-TYPEERROR (C09): abstract pending-exception state.

For every exit of a C entry point reached after a key/value conversion has
failed (status variable set to 0 inside a COPY_*_FROM_ARG expansion), the pair
(return value class, pending exception class) must be what the property
states: lookups report absence ([] -> KeyError, get -> the default with no
exception, in / has_key -> false with no exception), writes fail with
TypeError.  Pending-exception domain: none / TypeError / KeyError /
OverflowError / other; callee effects come from per-call-site summaries
specialised on constant arguments.
"""
from ..cir import strip, strip_parens, path, callee, text, const_int
from ..cfg import CFG
from ..flow import Analysis, sget, sset, sdel
from ..common import AnalysisError
from .. import ctables
from .changed import status_vars, CONV_MACROS

SETTERS = ("PyErr_SetString", "PyErr_SetObject", "PyErr_Format")
EXT_RAISES = {"PyLong_AsLong": ("OverflowError",), "PyLong_AsUnsignedLongLong": ("OverflowError",),
              "PyLong_AsLongLongAndOverflow": ()}


def _exc_name(e):
    e = strip(e)
    if e is not None and e.k == "DeclRefExpr" and (e.n or "").startswith("PyExc_"):
        return e.n[len("PyExc_"):]
    return "other"


class ExcAnalysis(Analysis):
    def __init__(self, cfg, tu, ctx, constargs):
        self.ctx = ctx
        self.constargs = constargs     # {param name: int}
        Analysis.__init__(self, cfg, tu)
        self.svars = status_vars(cfg.fn)
        self.exits = set()
        self.live = self._flag_liveness()

    def initial(self):
        st = frozenset([("x", "none")])
        for p, v in self.constargs.items():
            st = sset(st, "f:" + p, v)
        return st

    def extra_uses(self, node):
        out = set(getattr(self, "svars", ()))
        out |= set(self.constargs)
        if node.kind == "return" and node.e is not None:
            for n in node.e.walk():
                if n.k == "DeclRefExpr" and self.is_flag_var(n.n):
                    out.add(n.n)
        # variables receiving summarised call results stay live until tested
        return out

    def flag_value_of(self, e, st):
        e0 = strip(e)
        if e0 is not None and e0.k == "CallExpr":
            v = sget(st, "ret:%s:%s" % (e0.l, e0.c))
            if v is not None:
                return v
        return Analysis.flag_value_of(self, e, st)

    def const_call(self, call, st=None):
        if st is None:
            return None
        v = sget(st, "ret:%s:%s" % (call.l, call.c))
        return v if isinstance(v, int) else None

    def _calls(self, e):
        return [n for n in e.walk() if n.k == "CallExpr"]

    def on_node(self, node, st):
        e = node.e
        if e is None:
            return [st]
        states = [st]
        # post-order over calls
        for c in self._calls(e)[::-1]:
            cal = callee(c)
            new = []
            for s in states:
                new.extend(self._call(node, s, c, cal))
            states = new
        out = []
        for s in states:
            for n in e.walk():
                if n.k == "BinaryOperator" and n.v == "=" and n.mo in CONV_MACROS:
                    l0 = strip(n.kids[0])
                    if l0 is not None and l0.k == "DeclRefExpr" and l0.n in self.svars \
                            and const_int(n.kids[1]) == 0:
                        s = sset(s, "cf", True)
            out.append(s)
        return out

    def _call(self, node, st, c, cal):
        args = c.kids[1:]
        if cal[0] != "fn":
            return [st]
        name = cal[1]
        if name in SETTERS and args:
            return [sset(st, "x", _exc_name(args[0]))]
        if name == "PyErr_Clear":
            return [sset(st, "x", "none")]
        if name == "PyErr_NoMemory":
            return [sset(st, "x", "other")]
        if name in EXT_RAISES:
            outs = [st]
            for ex in EXT_RAISES[name]:
                outs.append(sset(st, "x", ex))
            return outs
        if name in self.tu.funcs and name in self.ctx["interesting"] and name != self.cfg.name:
            params = self.ctx["params"][name]
            consts = {}
            for p, a in zip(params, args):
                v = self.flag_value_of(a, st)
                if isinstance(v, int):
                    consts[p] = v
            exits = summary(self.tu, self.ctx, name, consts)
            # the layers pass the same key/value object down: once this frame
            # has converted it successfully, the callee's conversion of it
            # cannot fail
            converted_here = bool(self.svars) and not sget(st, "cf") and \
                all(sget(st, "f:" + v) not in (0, None) for v in self.svars)
            outs = []
            for ret, x, cf in sorted(exits, key=repr):
                if cf and converted_here:
                    continue
                s = sset(st, "x", x if x != "same" else sget(st, "x"))
                if cf:
                    s = sset(s, "cf", True)
                if ret is not None:
                    s = sset(s, "ret:%s:%s" % (c.l, c.c), ret)
                outs.append(s)
            return outs or [st]
        return [st]

    def on_edge(self, node, label, st):
        if label not in ("T", "F") or node.e is None:
            return st
        e = strip_parens(node.e)
        want = label == "T"
        while e is not None and e.k == "UnaryOperator" and e.v == "!":
            want = not want
            e = strip_parens(e.kids[0])
        e0 = strip(e)
        x = sget(st, "x")
        if e0 is not None and e0.k == "CallExpr":
            cal = callee(e0)
            if cal == ("fn", "PyErr_ExceptionMatches") and len(e0.kids) > 1:
                t = _exc_name(e0.kids[1])
                return st if (x == t) == want else None
            if cal == ("fn", "BTree_ShouldSuppressKeyError"):
                return st if (x == "KeyError") == want else None
            if cal == ("fn", "PyErr_Occurred"):
                return st if (x != "none") == want else None
            v = sget(st, "ret:%s:%s" % (e0.l, e0.c))
            if v is not None:
                truth = (v == "NN") or (v != "NN" and v != 0)
                return st if truth == want else None
        return st

    def _drop_dead(self, succ, st):
        st = Analysis._drop_dead(self, succ, st)
        if any(k.startswith("ret:") for k, _ in st):
            st = frozenset((k, v) for k, v in st if not k.startswith("ret:"))
        return st

    def collect(self):
        for n in self.cfg.returns():
            for st in self.IN.get(n.id, ()):
                sts = self.on_node(n, st) if n.e is not None else [st]
                for s in sts:
                    ret = self.flag_value_of(n.e, s) if n.e is not None else None
                    self.exits.add((ret, sget(s, "x"), bool(sget(s, "cf"))))


_memo = {}


def summary(tu, ctx, name, consts):
    key = (tu.family, name, tuple(sorted(consts.items())))
    if key in _memo:
        return _memo[key]
    _memo[key] = set()          # recursion guard
    an = ExcAnalysis(CFG(tu.funcs[name]), tu, ctx, consts)
    an.solve()
    an.collect()
    _memo[key] = an.exits
    return an.exits


def interesting_functions(tu):
    """Functions from which a conversion macro or an exception setter is
    reachable (only those need summaries)."""
    from .. import callgraph
    g = callgraph.build(tu)
    base = set()
    for name, fn in tu.funcs.items():
        for n in fn.walk():
            if (n.k == "BinaryOperator" and n.mo in CONV_MACROS) or \
                    (n.k == "CallExpr" and callee(n)[0] == "fn" and
                     callee(n)[1] in SETTERS + ("PyErr_Clear",)):
                base.add(name)
                break
    # helper functions that only translate errors are needed too
    conv = set(name for name, fn in tu.funcs.items()
               if any(n.k == "BinaryOperator" and n.mo in CONV_MACROS for n in fn.walk()))
    helpers = set(name for name in base if name.endswith(("_convert", "_check", "_handle_overflow"))
                  or name == "BTree_ShouldSuppressKeyError")
    out = set(conv) | helpers
    changed = True
    while changed:
        changed = False
        for name, cs in g.items():
            if name not in out and cs & out:
                out.add(name)
                changed = True
    return out


# entry point -> predicate on (ret, x) for exits after a failed conversion
def _lookup_spec(slot):
    return {
        "mp_subscript": ("[] with an unusable key", lambda r, x: r == 0 and x == "KeyError", "NULL + KeyError"),
        "get": ("get() with an unusable key", lambda r, x: r in ("NN", None) and x == "none", "the default, no exception"),
        "sq_contains": ("`in` with an unusable key", lambda r, x: r == 0 and x == "none", "0, no exception"),
        "has_key": ("has_key() with an unusable key", lambda r, x: r == "NN" and x == "none", "False, no exception"),
        "mp_ass_subscript": ("item assignment with an unusable key/value", lambda r, x: r == -1 and x == "TypeError", "-1 + TypeError"),
        "insert/add": ("insert()/add() with an unusable key", lambda r, x: r == 0 and x == "TypeError", "NULL + TypeError"),
        "pop/setdefault/remove": ("pop()/setdefault()/remove() with an unusable key", lambda r, x: r == 0 and x == "TypeError", "NULL + TypeError"),
    }[slot]


def analyse_tu(tu):
    _memo.clear()
    ctx = {"interesting": interesting_functions(tu),
           "params": {name: [k.n for k in fn.kids if k.k == "ParmVarDecl"]
                      for name, fn in tu.funcs.items()}}
    types = ctables.type_objects(tu)
    meths = ctables.py_methods(tu)
    findings = []
    n = 0
    seen = set()
    for tname in ("BucketType", "SetType", "BTreeType", "TreeSetType"):
        slots = types.get(tname, {})
        entries = []
        for slot in ("mp_subscript", "sq_contains", "mp_ass_subscript"):
            v = slots.get(slot)
            if v and v[0] == "fn":
                entries.append((slot, v[1]))
        for pyname, slot in (("get", "get"), ("has_key", "has_key"), ("insert", "insert/add"),
                             ("add", "insert/add"), ("pop", "pop/setdefault/remove"),
                             ("setdefault", "pop/setdefault/remove"), ("remove", "pop/setdefault/remove")):
            fn = meths.get((tname, pyname))
            if pyname == "pop" and tname in ("SetType", "TreeSetType"):
                continue        # set.pop() takes no key
            if fn and not (pyname == "insert" and tname == "BTreeType"):
                entries.append((slot, fn))
            elif fn and pyname == "insert":
                entries.append((slot, fn))
        for slot, fname in entries:
            if (slot, fname) in seen or fname not in tu.funcs:
                continue
            seen.add((slot, fname))
            what, pred, want = _lookup_spec(slot)
            exits = summary(tu, ctx, fname, {})
            cf_exits = [(r, x) for r, x, cf in exits if cf]
            n += 1
            for r, x in sorted(cf_exits, key=repr):
                if not pred(r, x):
                    findings.append(dict(
                        rule="READ-ABSENCE" if slot in ("mp_subscript", "get", "sq_contains", "has_key") else "WRITE-TYPEERROR",
                        function=fname, file=tu.funcs[fname].f, line=tu.funcs[fname].l,
                        construct="%s exits with return=%s exception=%s (expected %s)" % (
                            fname, {0: "NULL/0", "NN": "object", -1: "-1"}.get(r, r), x, want),
                        detail="%s: after the key/value conversion failed, %s "
                               "returns %s with pending exception %s; the "
                               "property requires %s" % (what, fname, r, x, want), path=[]))
    return dict(findings=findings, n=n)
