"""LEN-NONNEG (C15): a length slot answers a non-negative number or fails.

`len()` treats any negative result of an `sq_length` / `mp_length` function as
"error, exception set"; a negative count without an exception is SystemError.
The lazy key/value/item sequences compute their length from cursor positions
that a concurrent mutation can leave inconsistent (last < first), so the result
must be clamped.  Rule: every return expression of a function installed in a
length slot - and of the repository functions whose result it returns - is a
negative constant (the error exits), or provably non-negative:
a constant >= 0, a `->len` / `->size` field, a comparison, a clamp
`x >= 0 ? x : <non-negative>` / `x < 0 ? <non-negative> : x`, a conditional with
non-negative arms, a sum / product of such, a local all of whose definitions are
such (counters starting at a constant and growing by `+=` of non-negative
terms), or the result of a function with that property.
"""
from ..cir import strip, path, callee, const_int, text
from ..common import AnalysisError
from .. import ctables

REL_OPS = ("<", ">", "<=", ">=", "==", "!=", "&&", "||")


class Prover(object):
    def __init__(self, tu):
        self.tu = tu
        self.memo = {}

    def defs(self, fn, name):
        out = []
        for n in fn.walk():
            if n.k == "VarDecl" and n.n == name and n.kids and n.kids[-1].k != "Absent":
                out.append(("=", n.kids[-1]))
            elif n.k == "BinaryOperator" and n.v == "=" and path(n.kids[0]) == name:
                out.append(("=", n.kids[1]))
            elif n.k == "CompoundAssignOperator" and path(n.kids[0]) == name:
                out.append((n.v, n.kids[1]))
            elif n.k == "UnaryOperator" and n.v and ("++" in n.v or "--" in n.v) and path(n.kids[0]) == name:
                out.append((n.v, None))
            elif n.k == "ParmVarDecl" and n.n == name:
                out.append(("param", None))
        return out

    def nonneg(self, e, fn, depth=0, seen=()):
        e = strip(e)
        if e is None or depth > 8:
            return False
        c = const_int(e)
        if c is not None:
            return c >= 0
        if e.k == "MemberExpr" and e.n in ("len", "size"):
            return True
        if e.k == "BinaryOperator" and e.v in REL_OPS:
            return True
        if e.k == "UnaryOperator" and e.v == "!":
            return True
        if e.k == "BinaryOperator" and e.v in ("+", "*"):
            return self.nonneg(e.kids[0], fn, depth + 1, seen) and self.nonneg(e.kids[1], fn, depth + 1, seen)
        if e.k == "ConditionalOperator":
            cond, a, b = strip(e.kids[0]), e.kids[1], e.kids[2]
            # the clamp: x >= 0 ? x : N   /   x < 0 ? N : x   /  x > 0 ? x : N
            if cond is not None and cond.k == "BinaryOperator" and const_int(cond.kids[1]) == 0:
                x = text(strip(cond.kids[0]))
                if cond.v in (">=", ">") and text(strip(a)) == x and self.nonneg(b, fn, depth + 1, seen):
                    return True
                if cond.v in ("<", "<=") and text(strip(b)) == x and self.nonneg(a, fn, depth + 1, seen):
                    return True
            return self.nonneg(a, fn, depth + 1, seen) and self.nonneg(b, fn, depth + 1, seen)
        if e.k == "DeclRefExpr":
            if e.n in seen:
                return True                      # inductive: a counter defined in terms of itself
            ds = self.defs(fn, e.n)
            if not ds:
                return False
            for op, rhs in ds:
                if op == "param" or "--" in op or op in ("-=", "/=", "%=", "<<=", ">>=", "&=", "|=", "^="):
                    return False
                if rhs is not None and not self.nonneg(rhs, fn, depth + 1, seen + (e.n,)):
                    return False
            return True
        if e.k == "CallExpr":
            c = callee(e)
            if c[0] == "fn" and c[1] in self.tu.funcs and self.tu.body(c[1]) is not None:
                return self.function_ok(c[1], depth + 1) == []
            return False
        return False

    def function_ok(self, name, depth=0):
        """-> list of offending return nodes"""
        if name in self.memo:
            return self.memo[name]
        self.memo[name] = []                    # recursion guard
        fn = self.tu.funcs[name]
        bad = []
        body = self.tu.body(name)
        # accepted idiom: the single-leaf range of a lazy sequence - `last + 1 - first` of one leaf is
        # fixed when the sequence is built (newBTreeItems: empty = (1, 0)) and never negative
        single_leaf = set()
        for i in body.walk():
            if i.k == "IfStmt" and any(m.k == "MemberExpr" and m.n == "lastbucket" for m in i.kids[0].walk()) \
                    and strip(i.kids[0]) is not None and strip(i.kids[0]).k == "BinaryOperator" \
                    and strip(i.kids[0]).v == "==":
                for r in i.kids[1].walk():
                    if r.k == "ReturnStmt":
                        single_leaf.add(id(r))
        for r in body.walk():
            if r.k != "ReturnStmt" or not r.kids:
                continue
            if id(r) in single_leaf:
                self.accepted = getattr(self, "accepted", 0) + 1
                continue
            c = const_int(r.kids[0])
            if c is not None and c < 0:
                continue                        # an error exit
            if not self.nonneg(r.kids[0], fn, depth):
                bad.append(r)
        self.memo[name] = bad
        return bad


def analyse_tu(tu):
    findings = []
    slots = 0
    pr = Prover(tu)
    done = set()
    for tname, sl in ctables.type_objects(tu).items():
        for slot in ("sq_length", "mp_length"):
            v = sl.get(slot)
            if not v or v[0] != "fn" or v[1] not in tu.funcs or v[1] in done:
                continue
            done.add(v[1])
            slots += 1
            for r in pr.function_ok(v[1]):
                # point at the innermost function whose return is not proven
                where, node = v[1], r
                x = strip(r.kids[0])
                hops = 0
                while x is not None and x.k == "CallExpr" and callee(x)[0] == "fn" and callee(x)[1] in tu.funcs and hops < 4:
                    inner = pr.function_ok(callee(x)[1])
                    if not inner:
                        break
                    where, node = callee(x)[1], inner[0]
                    x = strip(node.kids[0])
                    hops += 1
                findings.append(dict(
                    rule="LEN-NONNEG", function=where, file=node.f, line=node.l,
                    construct="length result `%s` of %s is not clamped to >= 0" % (text(node.kids[0])[:40], where),
                    detail="%s ends up as the answer of the %s slot of %s; a negative value that is "
                           "not an error return makes len() raise SystemError('returned NULL without "
                           "setting an exception'). The cursor positions it is computed from can be "
                           "left inconsistent by a mutation during iteration" % (where, slot, tname), path=[]))
    return dict(findings=findings, stats={"length_slots": slots})
