"""Range searches and lazy sequences (C02).

RANGE-TABLE    leaf-level endpoint decision tables: for every valuation of
               (found, low/high, exclusive) the endpoint is an affine offset of
               the search index; C Bucket_findRangeEnd and Python _range must
               equal the specification (least index with key >= (>) min,
               greatest index with key <= (<) max)
BOUND-NORM     an omitted bound and None are treated alike at every range
               entry point
SEEK-ALGEBRA   BTreeItems_seek keeps (pseudoindex, currentoffset) consistent:
               along every path of its two loops the updates are the affine
               functions the leaf geometry dictates
ITER-CONTINUE  Python _TreeItems.__iter__ moves on to the next leaf unless a
               leaf *after the first* yielded nothing
"""
import ast
import itertools

from ..cir import strip, strip_parens, path, callee, text, const_int
from ..common import AnalysisError, SRC
from .. import pyfront
from .length import p_add, p_mul, p_const, p_var, show

REL = SRC + "/_base.py"


# ---------------------------------------------------------------------------
# RANGE-TABLE, C

def c_range_table(tu):
    fn = tu.func("Bucket_findRangeEnd")
    body = tu.body("Bucket_findRangeEnd")
    kids = list(body.kids)
    # statements after the BUCKET_SEARCH expansion
    start = None
    for i, s in enumerate(kids):
        if s.mo == "BUCKET_SEARCH":
            start = i
    if start is None:
        raise AnalysisError("anchor vanished: BUCKET_SEARCH in Bucket_findRangeEnd")
    rest = kids[start + 1:]
    table = {}
    for found, low, excl in itertools.product((True, False), repeat=3):
        env = {"i": p_var("I")}
        facts = {"range_test": False, "stored": None}

        def cond(e):
            e = strip(e)
            if e.k == "UnaryOperator" and e.v == "!":
                return not cond(e.kids[0])
            if e.k == "DeclRefExpr":
                if e.n == "low":
                    return low
                if e.n == "exclude_equal":
                    return excl
                if e.n == "result":
                    return True
            if e.k == "BinaryOperator" and e.v == "==" and path(e.kids[0]) == "cmp" and \
                    const_int(e.kids[1]) == 0:
                return found
            if e.k == "BinaryOperator" and e.v == "!=" and path(e.kids[0]) == "cmp" and \
                    const_int(e.kids[1]) == 0:
                return not found
            raise AnalysisError("range table: unrecognised condition %s at %s:%s" % (text(e), e.f, e.l))

        def run(s):
            k = s.k
            if k == "CompoundStmt":
                for c in s.kids:
                    run(c)
            elif k == "IfStmt":
                if cond(s.kids[0]):
                    run(s.kids[1])
                elif len(s.kids) > 2:
                    run(s.kids[2])
            elif k == "NullStmt":
                pass
            elif k == "UnaryOperator" and s.v in ("++", "post++", "--", "post--") and path(s.kids[0]) == "i":
                env["i"] = p_add(env["i"], p_const(1), 1 if "+" in s.v else -1)
            elif k == "BinaryOperator" and s.v == "=":
                lp = path(s.kids[0])
                if lp == "result":
                    t = text(s.kids[1]).replace(" ", "")
                    facts["range_test"] = ("0<=i" in t and "i<self->len" in t)
                elif lp == "*offset":
                    facts["stored"] = show(env["i"]) if path(s.kids[1]) == "i" else text(s.kids[1])
                elif lp == "i":
                    raise AnalysisError("range table: assignment to i")
            elif k == "LabelStmt":
                pass
            elif k in ("ReturnStmt",) or s.unit if hasattr(s, "unit") else False:
                pass
            elif k in ("DoStmt", "CallExpr", "ReturnStmt"):
                pass
            else:
                raise AnalysisError("range table: unrecognised statement %s at %s:%s" % (k, s.f, s.l))
        for s in rest:
            if s.k == "LabelStmt":
                break
            run(s)
        table[(found, low, excl)] = (facts["stored"], facts["range_test"])
    return table


def range_spec(found, low, excl):
    """offset of the endpoint relative to the search index I
    (I = index of the key if found, else insertion index)."""
    if low:
        k = (1 if excl else 0) if found else 0
    else:
        k = (-1 if excl else 0) if found else -1
    return show(p_add(p_var("I"), p_const(k)))


# ---------------------------------------------------------------------------
# RANGE-TABLE, Python  (_BucketBase._range)

def py_range_table():
    tree = pyfront.base_py()
    fn = pyfront.class_members(pyfront.classes(tree)["_BucketBase"]).get("_range")
    if not isinstance(fn, ast.FunctionDef):
        raise AnalysisError("anchor vanished: _BucketBase._range")
    table = {}
    for given, found, excl in itertools.product((True, False), repeat=3):
        for which in ("min", "max"):
            env = {}

            def ev(e):
                if isinstance(e, ast.Constant):
                    return p_const(e.value) if isinstance(e.value, int) else e.value
                if isinstance(e, ast.Name):
                    if e.id in env:
                        return env[e.id]
                    raise AnalysisError("py range table: name %s" % e.id)
                if isinstance(e, ast.UnaryOp) and isinstance(e.op, ast.USub):
                    return p_mul(p_const(-1), ev(e.operand))
                if isinstance(e, ast.BinOp) and isinstance(e.op, (ast.Add, ast.Sub)):
                    a, b = ev(e.left), ev(e.right)
                    return p_add(a, b, 1 if isinstance(e.op, ast.Add) else -1)
                if isinstance(e, ast.Call):
                    f = pyfront.unparse(e.func)
                    if f == "self._search":
                        # found: the index; absent: -(insertion index) - 1
                        return p_var("I") if found else p_add(p_mul(p_const(-1), p_var("I")), p_const(-1))
                    if f == "self._to_key":
                        return "KEY"
                    if f == "len":
                        return p_var("LEN")
                raise AnalysisError("py range table: expression %s" % pyfront.unparse(e))

            def test(t):
                s = pyfront.unparse(t)
                if s in ("%s is _marker or %s is None" % (which, which),):
                    return not given
                if s in ("start >= 0", "end >= 0"):
                    return found
                if s == "excludemin" or s == "excludemax":
                    return excl
                if s in ("not excludemax", "not excludemin"):
                    return not excl
                other = "max" if which == "min" else "min"
                if s == "%s is _marker or %s is None" % (other, other):
                    return True
                raise AnalysisError("py range table: test %s" % s)

            def run(stmts):
                for st in stmts:
                    if isinstance(st, ast.If):
                        # only follow the statement that handles `which`
                        run(st.body if test(st.test) else st.orelse)
                    elif isinstance(st, ast.Assign):
                        env[st.targets[0].id] = ev(st.value)
                    elif isinstance(st, ast.AugAssign):
                        cur = env[st.target.id]
                        env[st.target.id] = p_add(cur, ev(st.value), 1 if isinstance(st.op, ast.Add) else -1)
                    elif isinstance(st, ast.Return):
                        pass
                    elif isinstance(st, ast.Expr):
                        pass
                    else:
                        raise AnalysisError("py range table: statement %s" % type(st).__name__)
            # the two top-level ifs: first handles min, second max
            ifs = [s for s in fn.body if isinstance(s, ast.If)]
            if len(ifs) != 2:
                raise AnalysisError("unrecognised idiom: _range")
            run([ifs[0] if which == "min" else ifs[1]])
            v = env.get("start" if which == "min" else "end")
            table[(which, given, found, excl)] = show(v) if isinstance(v, dict) else repr(v)
    return table


def py_range_spec(which, given, found, excl):
    """start (inclusive) / end (exclusive) of the slice."""
    if which == "min":
        if not given:
            return show(p_const(1 if excl else 0))
        k = (1 if excl else 0) if found else 0
        return show(p_add(p_var("I"), p_const(k)))
    if not given:
        return show(p_add(p_var("LEN"), p_const(-1 if excl else 0)))
    k = (0 if excl else 1) if found else 0
    return show(p_add(p_var("I"), p_const(k)))


# ---------------------------------------------------------------------------
# SEEK-ALGEBRA

def _seek_roles(tu):
    """the locals of BTreeItems_seek by what they are committed to at the end
    (self->pseudoindex / currentoffset / currentbucket) and the distance still
    to go (the variable the two loops test against 0)"""
    fn = tu.func("BTreeItems_seek")
    roles = {}
    for a in fn.walk():
        if a.k == "BinaryOperator" and a.v == "=":
            lp = path(a.kids[0]) or ""
            r0 = strip(a.kids[1])
            for fld, role in (("pseudoindex", "pidx"), ("currentoffset", "off"), ("currentbucket", "bkt")):
                if lp.endswith("->" + fld) and r0 is not None and r0.k == "DeclRefExpr":
                    roles[role] = r0.n
    if sorted(roles) != ["bkt", "off", "pidx"]:
        raise AnalysisError("anchor vanished: BTreeItems_seek does not commit (pseudoindex, currentoffset, "
                            "currentbucket) from locals")
    return roles


def _stores_len_through(tu, call, bkt):
    """{local: True} for f(.., bkt, .., &local, ..) where f stores its bucket
    parameter's len through that out-parameter as a top-level statement"""
    c = callee(call)
    out = {}
    if c[0] != "fn" or c[1] not in tu.funcs or tu.body(c[1]) is None:
        return out
    params = [p.n for p in tu.params(c[1])]
    bpar = None
    outs = {}
    for pn, a in zip(params, call.kids[1:]):
        a0 = strip(a)
        if path(a0) == bkt:
            bpar = pn
        if a0 is not None and a0.k == "UnaryOperator" and a0.v == "&" and path(a0.kids[0]):
            outs[pn] = path(a0.kids[0])
    if bpar is None:
        return out
    for st in tu.body(c[1]).kids:
        x = strip(st)
        if x is not None and x.k == "BinaryOperator" and x.v == "=":
            l0, r0 = strip(x.kids[0]), strip(x.kids[1])
            if l0 is not None and l0.k == "UnaryOperator" and l0.v == "*" and path(l0.kids[0]) in outs and \
                    r0 is not None and r0.k == "MemberExpr" and r0.n == "len" and path(r0.kids[0]) == bpar:
                out[outs[path(l0.kids[0])]] = True
    return out


def seek_algebra(tu):
    """Affine effect of each loop-body path of BTreeItems_seek on
    (pseudoindex, delta, currentoffset) - the locals are found by their roles."""
    fn = tu.func("BTreeItems_seek")
    roles = _seek_roles(tu)
    PIDX, OFF, BKT = roles["pidx"], roles["off"], roles["bkt"]
    loops = [s for s in tu.body("BTreeItems_seek").kids if s.k == "WhileStmt"]
    if len(loops) != 2:
        raise AnalysisError("anchor vanished: the two loops of BTreeItems_seek")
    dvars = set()
    for loop in loops:
        c = strip(loop.kids[0] if loop.kids[0].k != "Absent" else loop.kids[1])
        conds = [k for k in loop.kids[:-1] if k.k != "Absent"]
        c = strip(conds[-1]) if conds else None
        if c is not None and c.k == "BinaryOperator" and c.v in ("<", ">", "!=") and const_int(c.kids[1]) == 0 \
                and path(c.kids[0]):
            dvars.add(path(c.kids[0]))
    if len(dvars) != 1:
        raise AnalysisError("anchor vanished: the loops of BTreeItems_seek do not test one distance variable")
    DELTA = dvars.pop()
    results = []
    for li, loop in enumerate(loops):
        paths = []

        def ev(e, env):
            e = strip(e)
            c = const_int(e)
            if c is not None:
                return p_const(c)
            if e.k == "DeclRefExpr":
                if env.get(e.n) is not None:
                    return env[e.n]
                raise AnalysisError("seek: variable %s at %s:%s" % (e.n, e.f, e.l))
            if e.k == "MemberExpr" and e.n == "len" and path(e.kids[0]) == BKT:
                return p_var("L%s" % env["#bucket"])
            if e.k == "UnaryOperator" and e.v == "-":
                return p_mul(p_const(-1), ev(e.kids[0], env))
            if e.k == "BinaryOperator" and e.v in ("+", "-"):
                return p_add(ev(e.kids[0], env), ev(e.kids[1], env), 1 if e.v == "+" else -1)
            raise AnalysisError("seek: expression %s at %s:%s" % (text(e), e.f, e.l))

        def try_ev(e, env):
            try:
                return ev(e, env)
            except AnalysisError:
                return None

        def run(stmts, env, events):
            """returns list of (env, events, finished)"""
            states = [(env, events)]
            for s in stmts:
                nxt = []
                for env, events in states:
                    nxt.extend(step(s, dict(env), list(events)))
                states = [(e, ev_) for e, ev_, fin in nxt if not fin]
                for e, ev_, fin in nxt:
                    if fin == "break":
                        paths.append((e, ev_ + ["break"]))
                    elif fin == "continue":
                        paths.append((e, ev_))      # the iteration ends here
                if not states:
                    break
            return [(e, ev_, False) for e, ev_ in states]

        def effects(e, env, events):
            """side effects of an expression evaluated for its value (a condition):
            helper calls that store the bucket's len / step to the previous bucket"""
            for c in e.walk():
                if c.k == "CallExpr":
                    for v in _stores_len_through(tu, c, BKT):
                        env[v] = p_var("L%s" % env["#bucket"])
            return events

        def step(s, env, events):
            k = s.k
            if k == "CompoundStmt":
                return run(list(s.kids), env, events)
            if k in ("NullStmt",):
                return [(env, events, False)]
            if k == "DeclStmt":
                for v in s.kids:
                    if v.k == "VarDecl" and v.kids and v.kids[-1].k != "Absent":
                        env[v.n] = try_ev(v.kids[-1], env)
                return [(env, events, False)]
            if k == "DoStmt":     # PER_UNUSE
                return [(env, events, False)]
            if k == "IfStmt":
                # persistence acquire-or-return: failure path leaves the function
                from ..cfg import match_acq_stmt
                if match_acq_stmt(s) is not None:
                    return [(env, events, False)]
                events = effects(s.kids[0], env, events)
                out = []
                out.extend(step(s.kids[1], dict(env), events + ["T:" + text(s.kids[0])[:40]]))
                if len(s.kids) > 2 and s.kids[2].k != "Absent":
                    out.extend(step(s.kids[2], dict(env), events + ["F:" + text(s.kids[0])[:40]]))
                else:
                    out.append((env, events + ["F:" + text(s.kids[0])[:40]], False))
                return out
            if k in ("GotoStmt", "ReturnStmt"):
                return [(env, events, "exit")]
            if k == "BreakStmt":
                return [(env, events, "break")]
            if k == "ContinueStmt":
                return [(env, events, "continue")]
            if k == "CompoundAssignOperator":
                v = path(s.kids[0])
                r = ev(s.kids[1], env)
                if env.get(v) is None:
                    raise AnalysisError("seek: %s of the unknown %s at %s:%s" % (s.v, v, s.f, s.l))
                env[v] = p_add(env[v], r, 1 if s.v == "+=" else -1)
                return [(env, events, False)]
            if k == "BinaryOperator" and s.v == "=":
                v = path(s.kids[0])
                r0 = strip(s.kids[1])
                if v == BKT:
                    env["#bucket"] = env["#bucket"] + 1
                    events = events + ["next"]
                elif r0 is not None and r0.k == "CallExpr" and callee(r0) == ("fn", "PreviousBucket"):
                    env["#bucket"] = env["#bucket"] + 1
                    events = events + ["prev"]
                    env[v] = p_const(1)
                elif v in (PIDX, DELTA, OFF):
                    env[v] = ev(s.kids[1], env)
                elif v is not None and "->" not in v and "." not in v:
                    # any other local: its value if it is affine in the tracked ones
                    events = effects(s.kids[1], env, events)
                    env[v] = try_ev(s.kids[1], env)
                else:
                    raise AnalysisError("seek: assignment to %s" % v)
                return [(env, events, False)]
            if k == "CallExpr":
                return [(env, effects(s, env, events), False)]
            raise AnalysisError("seek: unrecognised statement %s at %s:%s" % (k, s.f, s.l))
        env0 = {PIDX: p_var("P"), DELTA: p_var("D"), OFF: p_var("O"), "#bucket": 0}
        end = run(list(loop.kids[-1].kids), env0, [])
        for e, ev_, fin in end:
            paths.append((e, ev_))
        for e, ev_ in paths:
            kind = "next" if "next" in ev_ else "prev" if "prev" in ev_ else \
                   "within" if "break" in ev_ else "other"
            results.append((li, kind, show(e[PIDX]), show(e[DELTA]) if kind != "within" else None,
                            show(e[OFF])))
    return sorted(set(results), key=repr)


def seek_spec():
    P, D, O = p_var("P"), p_var("D"), p_var("O")
    L0, L1 = p_var("L0"), p_var("L1")
    one = p_const(1)
    step_r = p_add(L0, O, -1)                      # items up to the end of this leaf + 1
    step_l = p_add(O, one)
    return sorted(set([
        (0, "within", show(p_add(P, D)), None, show(p_add(O, D))),
        (0, "next", show(p_add(P, step_r)), show(p_add(D, step_r, -1)), show(p_const(0))),
        (1, "within", show(p_add(P, D)), None, show(p_add(O, D))),
        (1, "prev", show(p_add(P, step_l, -1)), show(p_add(D, step_l)), show(p_add(L1, one, -1))),
    ]), key=repr)


# ---------------------------------------------------------------------------
# ITER-CONTINUE / TREE-EXCLUDE (Python _TreeItems.__iter__)
#
# The generator is walked concretely over a chain of three leaves for every
# valuation of (which leaves yield something) x (lower bound omitted / None /
# given) x (upper bound likewise) x (excludemin, excludemax).  Recorded: the
# leaves visited and the (min, max, excludemin, excludemax) handed to the
# range computation of each.  Everything the walk does not understand is an
# AnalysisError (fail closed).

class _Mark(object):
    def __init__(self, name):
        self.name = name

    def __repr__(self):
        return self.name


MARK = _Mark("_marker")
KEYLO = _Mark("<min key>")
KEYHI = _Mark("<max key>")
NLEAVES = 3


class _Stop(Exception):
    pass


class _IterWalk(object):
    def __init__(self, fn, ys, iterargs):
        self.fn = fn
        self.ys = ys
        self.env = {"_marker": MARK, "None": None, "True": True, "False": False}
        self.selfattrs = {"firstbucket": 0, "itertype": "iterkeys", "iterargs": iterargs}
        self.visits = []

    def ev(self, e):
        if isinstance(e, ast.Constant):
            return e.value
        if isinstance(e, ast.Name):
            if e.id not in self.env:
                raise AnalysisError("tree-iter: unknown name %s" % e.id)
            return self.env[e.id]
        if isinstance(e, ast.Attribute):
            if isinstance(e.value, ast.Name) and e.value.id == "self" and e.attr in self.selfattrs:
                return self.selfattrs[e.attr]
            if e.attr == "_next":
                b = self.ev(e.value)
                if not isinstance(b, int) or isinstance(b, bool):
                    raise AnalysisError("tree-iter: _next of %r" % (b,))
                return b + 1 if b + 1 < NLEAVES else None
            raise AnalysisError("tree-iter: attribute %s" % pyfront.unparse(e))
        if isinstance(e, ast.Tuple):
            return tuple(self.ev(x) for x in e.elts)
        if isinstance(e, ast.UnaryOp) and isinstance(e.op, ast.Not):
            return not self.ev(e.operand)
        if isinstance(e, ast.BoolOp):
            v = None
            for x in e.values:
                v = self.ev(x)
                if isinstance(e.op, ast.And) and not v:
                    return v
                if isinstance(e.op, ast.Or) and v:
                    return v
            return v
        if isinstance(e, ast.IfExp):
            return self.ev(e.body) if self.ev(e.test) else self.ev(e.orelse)
        if isinstance(e, ast.Compare) and len(e.ops) == 1:
            l, r = self.ev(e.left), self.ev(e.comparators[0])
            op = e.ops[0]
            if isinstance(op, ast.Is):
                return l is r
            if isinstance(op, ast.IsNot):
                return l is not r
            if isinstance(op, (ast.Eq, ast.NotEq, ast.Lt, ast.LtE, ast.Gt, ast.GtE)) and \
                    all(isinstance(x, int) for x in (l, r)):
                return {ast.Eq: l == r, ast.NotEq: l != r, ast.Lt: l < r, ast.LtE: l <= r,
                        ast.Gt: l > r, ast.GtE: l >= r}[type(op)]
            raise AnalysisError("tree-iter: comparison %s" % pyfront.unparse(e))
        if isinstance(e, ast.BinOp) and isinstance(e.op, ast.Add):
            l, r = self.ev(e.left), self.ev(e.right)
            if isinstance(l, tuple) and isinstance(r, tuple):
                return l + r
            raise AnalysisError("tree-iter: + of %s" % pyfront.unparse(e))
        if isinstance(e, ast.Subscript):
            v = self.ev(e.value)
            if not isinstance(v, tuple):
                raise AnalysisError("tree-iter: subscript of %s" % pyfront.unparse(e))
            if isinstance(e.slice, ast.Slice):
                lo = self.ev(e.slice.lower) if e.slice.lower is not None else None
                hi = self.ev(e.slice.upper) if e.slice.upper is not None else None
                if e.slice.step is not None:
                    raise AnalysisError("tree-iter: slice step")
                return v[lo:hi]
            i = self.ev(e.slice)
            if not isinstance(i, int) or not -len(v) <= i < len(v):
                raise AnalysisError("tree-iter: index %s" % pyfront.unparse(e))
            return v[i]
        if isinstance(e, ast.Call) and isinstance(e.func, ast.Name) and len(e.args) == 1 \
                and not e.keywords and e.func.id in ("len", "tuple", "bool", "int"):
            v = self.ev(e.args[0])
            if e.func.id == "bool":
                return bool(v)
            if e.func.id == "int":
                if isinstance(v, (bool, int)):
                    return int(v)
                raise AnalysisError("tree-iter: int() of %r" % (v,))
            if not isinstance(v, tuple):
                raise AnalysisError("tree-iter: %s of a non-tuple" % e.func.id)
            return len(v) if e.func.id == "len" else tuple(v)
        raise AnalysisError("tree-iter: expression %s" % pyfront.unparse(e))

    def _chain_arg(self, e):
        """(start expression, enumerated?) when e iterates a module-level generator
        that walks a leaf chain (`while b is not None: yield b; b = b._next`)"""
        counted = False
        if isinstance(e, ast.Call) and isinstance(e.func, ast.Name) and e.func.id == "enumerate" and len(e.args) == 1:
            counted = True
            e = e.args[0]
        if not (isinstance(e, ast.Call) and isinstance(e.func, ast.Name) and len(e.args) == 1):
            return None
        g = pyfront.functions(pyfront.base_py()).get(e.func.id)
        if g is None or len(g.args.args) != 1:
            return None
        p = g.args.args[0].arg
        body = [x for x in g.body if not (isinstance(x, ast.Expr) and isinstance(x.value, ast.Constant))]
        if len(body) == 1 and isinstance(body[0], ast.While) and pyfront.unparse(body[0].test) == "%s is not None" % p:
            b = body[0].body
            if len(b) == 2 and isinstance(b[0], ast.Expr) and isinstance(b[0].value, ast.Yield) and \
                    pyfront.unparse(b[0].value.value) == p and pyfront.unparse(b[1]) == "%s = %s._next" % (p, p):
                return e.args[0], counted
        return None

    def leaf_call(self, e):
        """getattr(<leaf>, itertype)(args...) -> (leaf, args)"""
        if not (isinstance(e, ast.Call) and isinstance(e.func, ast.Call)
                and isinstance(e.func.func, ast.Name) and e.func.func.id == "getattr"
                and len(e.func.args) == 2):
            raise AnalysisError("tree-iter: loop iterable %s" % pyfront.unparse(e))
        leaf = self.ev(e.func.args[0])
        args = []
        for a in e.args:
            if isinstance(a, ast.Starred):
                v = self.ev(a.value)
                if not isinstance(v, tuple):
                    raise AnalysisError("tree-iter: *%s" % pyfront.unparse(a.value))
                args.extend(v)
            else:
                args.append(self.ev(a))
        names = ["min", "max", "excludemin", "excludemax"]
        for kw in e.keywords:
            if kw.arg not in names:
                raise AnalysisError("tree-iter: keyword %s" % kw.arg)
            while len(args) <= names.index(kw.arg):
                args.append((MARK, MARK, False, False)[len(args)])
            args[names.index(kw.arg)] = self.ev(kw.value)
        if len(args) > 4:
            raise AnalysisError("tree-iter: %d range arguments" % len(args))
        args += list((MARK, MARK, False, False)[len(args):])
        return leaf, tuple(args)

    def assign(self, tgt, val):
        if isinstance(tgt, ast.Name):
            self.env[tgt.id] = val
        elif isinstance(tgt, (ast.Tuple, ast.List)):
            if not isinstance(val, tuple) or len(val) != len(tgt.elts):
                raise AnalysisError("tree-iter: unpacking %d values into %d targets" % (
                    len(val) if isinstance(val, tuple) else -1, len(tgt.elts)))
            for t, v in zip(tgt.elts, val):
                self.assign(t, v)
        else:
            raise AnalysisError("tree-iter: assignment target %s" % pyfront.unparse(tgt))

    def run(self, stmts):
        for st in stmts:
            if isinstance(st, ast.Assign) and len(st.targets) == 1:
                self.assign(st.targets[0], self.ev(st.value))
            elif isinstance(st, ast.While):
                guard = 0
                while self.ev(st.test):
                    guard += 1
                    if guard > 10:
                        raise AnalysisError("tree-iter: loop does not advance")
                    self.run(st.body)
            elif isinstance(st, ast.For) and self._chain_arg(st.iter) is not None:
                # for [pos,] bucket in [enumerate(]chain(first)[)]: the leaves in chain order
                arg, counted = self._chain_arg(st.iter)
                leaf = self.ev(arg)
                pos = 0
                while leaf is not None:
                    if not isinstance(leaf, int) or isinstance(leaf, bool):
                        raise AnalysisError("tree-iter: chain starts at %r" % (leaf,))
                    self.assign(st.target, (pos, leaf) if counted else leaf)
                    self.run(st.body)
                    leaf = leaf + 1 if leaf + 1 < NLEAVES else None
                    pos += 1
            elif isinstance(st, ast.For):
                leaf, args = self.leaf_call(st.iter)
                if not isinstance(leaf, int) or isinstance(leaf, bool):
                    raise AnalysisError("tree-iter: iterating over %r" % (leaf,))
                self.visits.append((leaf, args))
                if self.ys[leaf]:
                    self.assign(st.target, KEYLO)
                    self.run(st.body)
            elif isinstance(st, ast.If):
                self.run(st.body if self.ev(st.test) else st.orelse)
            elif isinstance(st, ast.Return):
                raise _Stop()
            elif isinstance(st, ast.Expr) and isinstance(st.value, (ast.Yield, ast.Constant)):
                pass
            elif isinstance(st, ast.Pass):
                pass
            else:
                raise AnalysisError("tree-iter: statement %s" % pyfront.unparse(st)[:60])


def _tree_iter_fn():
    tree = pyfront.base_py()
    fn = pyfront.class_members(pyfront.classes(tree)["_TreeItems"]).get("__iter__")
    if not isinstance(fn, ast.FunctionDef):
        raise AnalysisError("anchor vanished: _TreeItems.__iter__")
    return fn


def iter_continue(iterargs=None):
    """{which leaves yield: leaves visited}; iterargs = the range arguments of
    the sequence (default: both bounds omitted)"""
    fn = _tree_iter_fn()
    out = {}
    for ys in itertools.product((True, False), repeat=NLEAVES):
        w = _IterWalk(fn, ys, iterargs or (MARK, MARK, False, False))
        try:
            w.run(fn.body)
        except _Stop:
            pass
        out[ys] = [v[0] for v in w.visits]
    return out


ITER_ARGS = (("both bounds omitted", None),
             ("min omitted, exclusive", (MARK, MARK, True, False)),
             ("min None", (None, MARK, False, False)),
             ("min given", (KEYLO, MARK, False, False)),
             ("min and max given, exclusive", (KEYLO, KEYHI, True, True)))


def tree_exclude_table():
    """{(min kind, max kind, excludemin, excludemax): [(leaf, exmin, exmax, min ok, max ok)]}
    with every leaf yielding (so that all three are visited)."""
    fn = _tree_iter_fn()
    out = {}
    for mn, mx, exmin, exmax in itertools.product(
            (MARK, None, KEYLO), (MARK, None, KEYHI), (False, True), (False, True)):
        w = _IterWalk(fn, (True,) * NLEAVES, (mn, mx, exmin, exmax))
        try:
            w.run(fn.body)
        except _Stop:
            pass
        rows = []
        for leaf, args in w.visits:
            lo_ok = (args[0] is mn) or (mn in (MARK, None) and args[0] in (MARK, None))
            hi_ok = (args[1] is mx) or (mx in (MARK, None) and args[1] in (MARK, None))
            rows.append((leaf, bool(args[2]), bool(args[3]), lo_ok, hi_ok))
        out[(repr(mn), repr(mx), exmin, exmax)] = rows
    return out


def tree_exclude_spec(key, row):
    """None if the row is right, else the complaint."""
    mn, mx, exmin, exmax = key
    leaf, gmin, gmax, lo_ok, hi_ok = row
    if not lo_ok or not hi_ok:
        return "leaf %d is searched with different bounds than the caller gave" % leaf
    if mn in ("_marker", "None"):
        want = exmin and leaf == 0
        if gmin != want:
            return ("with the lower bound omitted, leaf %d gets excludemin=%s (the exclusion "
                    "applies to the smallest key of the tree only)" % (leaf, gmin))
    elif leaf == 0 and gmin != exmin:
        return "leaf 0 (found for the given lower bound) gets excludemin=%s instead of %s" % (gmin, exmin)
    if mx in ("_marker", "None"):
        want = exmax and leaf == NLEAVES - 1
        if gmax != want:
            return ("with the upper bound omitted, leaf %d gets excludemax=%s (the exclusion "
                    "applies to the largest key of the tree only)" % (leaf, gmax))
    elif gmax != exmax:
        return "leaf %d gets excludemax=%s instead of %s for a given upper bound" % (leaf, gmax, exmax)
    return None


def iter_spec(ys):
    visited = [0]
    for k in (1, 2):
        # leaf k is visited unless an earlier leaf other than the first yielded nothing
        if all(ys[j] for j in range(1, k)):
            visited.append(k)
        else:
            break
    return visited


# ---------------------------------------------------------------------------
# BOUND-NORM

def bound_norm_py(res):
    tree = pyfront.base_py()
    n = 0
    for cname, cls in pyfront.classes(tree).items():
        for mname, fn in pyfront.class_members(cls).items():
            if not isinstance(fn, ast.FunctionDef):
                continue
            params = set(a.arg for a in fn.args.args)
            for c in ast.walk(fn):
                if isinstance(c, ast.Compare) and len(c.ops) == 1 and \
                        isinstance(c.ops[0], (ast.Is, ast.IsNot)) and \
                        pyfront.unparse(c.comparators[0]) == "_marker" and \
                        isinstance(c.left, ast.Name) and c.left.id in ("min", "max", "key") \
                        and c.left.id in params:
                    n += 1
                    par = getattr(c, "_parent", None)
                    want = "%s %s None" % (c.left.id, "is" if isinstance(c.ops[0], ast.Is) else "is not")
                    ok = isinstance(par, ast.BoolOp) and any(
                        pyfront.unparse(v) == want for v in par.values) and \
                        isinstance(par.op, ast.Or if isinstance(c.ops[0], ast.Is) else ast.And)
                    if not ok:
                        res.findings.add(dict(
                            rule="BOUND-NORM", function="%s.%s" % (cname, mname), file=REL,
                            line=c.lineno, construct="`%s` not paired with `%s`" % (pyfront.unparse(c), want),
                            detail="an omitted bound and an explicit None must "
                                   "mean the same (unbounded) at every range "
                                   "entry point", path=[]))
    res.count("PY-BOUND-NORM", n)
    res.floor("python omitted-bound tests", n, 5)


def bound_norm_c(tu):
    findings = []
    n = 0
    for name in tu.order:
        fn = tu.funcs[name]
        for call in fn.walk():
            if call.k != "CallExpr" or callee(call)[0] != "fn" or \
                    callee(call)[1] not in ("PyArg_ParseTuple", "PyArg_ParseTupleAndKeywords"):
                continue
            fi = 1 if callee(call)[1] == "PyArg_ParseTuple" else 2
            f0 = strip(call.kids[1 + fi])
            if f0 is None or f0.k != "StringLiteral":
                continue
            fmt = (f0.v or "").strip('"').split(":")[0]
            if "|" not in fmt or not any(s in name for s in ("rangeSearch", "maxminKey")):
                continue
            outs = call.kids[2 + fi + (1 if fi == 2 else 0):]
            units = [ch for ch in fmt if ch.isalpha() or ch == "|"]
            opt = False
            vars_ = []
            j = 0
            for ch in units:
                if ch == "|":
                    opt = True
                    continue
                if j < len(outs):
                    o = strip(outs[j])
                    if opt and ch == "O" and o is not None and o.k == "UnaryOperator":
                        vars_.append(path(o.kids[0]))
                j += 1
            for v in vars_:
                init = None
                for d in fn.walk():
                    if d.k == "VarDecl" and d.n == v and d.kids:
                        init = text(d.kids[-1])
                n += 1
                if init is not None and "_Py_NoneStruct" in init:
                    continue
                # NULL default: each truthiness test of v must be conjoined with
                # a None test in the same condition
                def truth_tests(e, out):
                    e0 = strip_parens(e)
                    while e0 is not None and e0.k == "ImplicitCastExpr":
                        e0 = strip_parens(e0.kids[0])
                    if e0 is None:
                        return
                    if e0.k == "DeclRefExpr" and e0.n == v:
                        out.append(e0)
                    elif e0.k == "UnaryOperator" and e0.v == "!":
                        truth_tests(e0.kids[0], out)
                    elif e0.k == "BinaryOperator" and e0.v in ("&&", "||"):
                        truth_tests(e0.kids[0], out)
                        truth_tests(e0.kids[1], out)
                    elif e0.k == "BinaryOperator" and e0.v in ("==", "!=") and \
                            path(e0.kids[0]) == v and const_int(e0.kids[1]) == 0:
                        out.append(e0)
                for c in fn.walk():
                    if c.k == "IfStmt":
                        tests = []
                        truth_tests(c.kids[0], tests)
                        ct = text(c.kids[0]).replace(" ", "")
                        if tests and ("%s!=&_Py_NoneStruct" % v) not in ct and \
                                ("%s==&_Py_NoneStruct" % v) not in ct:
                            findings.append(dict(
                                rule="BOUND-NORM", function=name, file=c.f, line=c.l,
                                construct="bound `%s` tested without a None test: %s" % (v, ct[:60]),
                                detail="an omitted bound and an explicit None "
                                       "must mean the same (unbounded)", path=[]))
    return dict(findings=findings, n=n)


# ---------------------------------------------------------------------------
# TREE-EXCLUDE (Python): an exclusive *omitted* bound must drop only the
# overall smallest / largest key: decision table of the flags each leaf's range
# computation receives (tree_exclude_table above).

def tree_exclude_py(res):
    tab = tree_exclude_table()
    n = 0
    for key, rows in sorted(tab.items()):
        if [r[0] for r in rows] != list(range(NLEAVES)):
            raise AnalysisError("tree-exclude: leaves visited %s" % [r[0] for r in rows])
        for row in rows:
            n += 1
            bad = tree_exclude_spec(key, row)
            if bad:
                res.findings.add(dict(
                    rule="TREE-EXCLUDE", function="_TreeItems.__iter__", file=REL, line=1,
                    construct="min=%s max=%s excludemin=%s excludemax=%s: %s" % (key + (bad,)),
                    detail="the lazy sequence hands every leaf its range arguments; "
                           "with these arguments the result differs from the slice "
                           "of the sorted contents", path=[]))
    res.count("PY-TREE-EXCLUDE", n)


# ---------------------------------------------------------------------------
# UNBOUNDED-END (C BTree_rangeSearch): with a bound omitted, the end of the
# range is the first / last entry of the leaf chain, moved by one entry when
# the end is exclusive.  The two branches are walked symbolically for every
# valuation of (exclusive, end leaf has more than one entry, chain has a single
# leaf); leaves are the symbols FIRST, LAST, NEXT(FIRST), PREV(LAST), offsets
# are polynomials over the leaf lengths.  A branch condition on the root's
# child count (self->len) is not a function of those atoms: RANGE-SHAPE.

def _leaflen(b):
    return p_var("len(%s)" % b)


class _ShapeDependent(Exception):
    def __init__(self, cond):
        self.cond = cond


class _Goto(Exception):
    def __init__(self, label):
        self.label = label


def c_unbounded_table(tu):
    body = tu.body("BTree_rangeSearch")
    ends = {}
    for s in body.kids:
        if s.k == "IfStmt" and len(s.kids) > 2:
            c = strip(s.kids[0])
            if c.k == "BinaryOperator" and c.v == "!=" and "_Py_NoneStruct" in text(c.kids[1]):
                nm = path(c.kids[0])
                if nm in ("min", "max") and nm not in ends:
                    ends[nm] = s.kids[2]
    if set(ends) != {"min", "max"}:
        raise AnalysisError("anchor vanished: omitted-bound branches of BTree_rangeSearch (%s)" % sorted(ends))
    table = {}
    for which, branch in sorted(ends.items()):
        bvar, ovar, xvar = (("lowbucket", "lowoffset", "excludemin") if which == "min"
                            else ("highbucket", "highoffset", "excludemax"))
        endleaf = "FIRST" if which == "min" else "LAST"
        for excl, many, single in itertools.product((True, False), repeat=3):
            env = {}

            def leaf_eq(a, b):
                if a == b:
                    return True
                pair = {a, b}
                if pair == {"FIRST", "LAST"}:
                    return single
                if "NULL" in pair:
                    o = (pair - {"NULL"}).pop()
                    if o in ("NEXT(FIRST)", "PREV(LAST)"):
                        return single
                    if o in ("FIRST", "LAST"):
                        return False
                raise AnalysisError("unbounded-end: cannot compare leaves %s and %s" % (a, b))

            def val(e):
                e = strip(e)
                if e.k == "IntegerLiteral":
                    return p_const(int(e.v))
                ci = const_int(e)
                if ci is not None and e.k != "DeclRefExpr":
                    return p_const(ci) if ci != 0 or "NULL" not in text(e) else "NULL"
                p = path(e)
                if p == "self->firstbucket":
                    return "FIRST"
                if p == "self->len":
                    raise _ShapeDependent(p)
                if p and p in env:
                    return env[p]
                if e.k == "MemberExpr" and e.n in ("len", "next"):
                    b = val(e.kids[0])
                    if not isinstance(b, str) or b == "NULL":
                        raise AnalysisError("unbounded-end: %s of %r" % (e.n, b))
                    if e.n == "len":
                        return _leaflen(b)
                    if b == "FIRST":
                        return "NEXT(FIRST)"
                    raise AnalysisError("unbounded-end: next of %s" % b)
                if e.k == "CallExpr" and callee(e) == ("fn", "BTree_lastBucket"):
                    return "LAST"
                if e.k == "BinaryOperator" and e.v in ("+", "-"):
                    l, r = val(e.kids[0]), val(e.kids[1])
                    if isinstance(l, str) or isinstance(r, str):
                        raise AnalysisError("unbounded-end: pointer arithmetic %s" % text(e))
                    return p_add(l, r, 1 if e.v == "+" else -1)
                raise AnalysisError("unbounded-end: value %s at %s:%s" % (text(e), e.f, e.l))

            def int_cmp(op, l, r):
                d = p_add(l, r, -1)         # l - r  as  k + a*len(end leaf)
                mono = dict(d)
                k = mono.pop((), 0)
                if not mono:
                    v = k
                else:
                    lv = tuple(_leaflen(endleaf).keys())[0]
                    if set(mono) != {lv} or mono[lv] != 1:
                        raise AnalysisError("unbounded-end: comparison over %s" % show(d))
                    if not many:
                        v = k + 1           # len == 1
                    else:                   # len >= 2:  d >= k + 2
                        lo = k + 2
                        if op in (">", ">=") and (lo > 0 or (op == ">=" and lo >= 0)):
                            return True
                        if op in ("<", "<=") and (lo > 0 or (op == "<" and lo >= 0)):
                            return False
                        if op == "==" and lo > 0:
                            return False
                        if op == "!=" and lo > 0:
                            return True
                        raise AnalysisError("unbounded-end: %s 0 undecided for %s" % (op, show(d)))
                return {">": v > 0, ">=": v >= 0, "<": v < 0, "<=": v <= 0, "==": v == 0, "!=": v != 0}[op]

            def cond(e):
                e = strip(e)
                if e.k == "UnaryOperator" and e.v == "!":
                    return not cond(e.kids[0])
                if e.k == "BinaryOperator" and e.v == "&&":
                    return cond(e.kids[0]) and cond(e.kids[1])
                if e.k == "BinaryOperator" and e.v == "||":
                    return cond(e.kids[0]) or cond(e.kids[1])
                if e.k == "DeclRefExpr" and e.n == xvar:
                    return excl
                if e.k == "BinaryOperator" and e.v in ("<", "<=", ">", ">=", "==", "!="):
                    l, r = val(e.kids[0]), val(e.kids[1])
                    if isinstance(l, str) or isinstance(r, str):
                        l = "NULL" if not isinstance(l, str) and l == p_const(0) else l
                        r = "NULL" if not isinstance(r, str) and r == p_const(0) else r
                        if e.v not in ("==", "!=") or not (isinstance(l, str) and isinstance(r, str)):
                            raise AnalysisError("unbounded-end: condition %s" % text(e))
                        return leaf_eq(l, r) == (e.v == "==")
                    return int_cmp(e.v, l, r)
                v = val(e)
                if isinstance(v, str):
                    return not leaf_eq(v, "NULL")
                return int_cmp("!=", v, p_const(0))

            def run(s):
                k = s.k
                if k == "CompoundStmt":
                    for c in s.kids:
                        run(c)
                elif k in ("DeclStmt",):
                    for d in s.kids:
                        if d.k == "VarDecl" and d.kids:
                            env[d.n] = val(d.kids[-1])
                elif k == "IfStmt":
                    ctext = text(s.kids[0])
                    if "setstate(" in ctext:
                        # activation: follow the success side
                        neg = strip(s.kids[0]).k == "UnaryOperator" and strip(s.kids[0]).v == "!"
                        if neg:
                            if len(s.kids) > 2:
                                run(s.kids[2])
                        else:
                            run(s.kids[1])
                        return
                    if cond(s.kids[0]):
                        run(s.kids[1])
                    elif len(s.kids) > 2:
                        run(s.kids[2])
                elif k == "GotoStmt":
                    raise _Goto(s.n)
                elif k == "BinaryOperator" and s.v == "=":
                    lp = path(s.kids[0])
                    rhs = strip(s.kids[1])
                    if rhs.k == "CallExpr" and callee(rhs) == ("fn", "PreviousBucket"):
                        a0 = strip(rhs.kids[1])
                        tgt = path(a0.kids[0]) if a0.k == "UnaryOperator" and a0.v == "&" else None
                        if tgt is None or tgt not in env or val(rhs.kids[2]) != "FIRST":
                            raise AnalysisError("unbounded-end: PreviousBucket call %s" % text(rhs))
                        cur = env[tgt]
                        if leaf_eq(cur, "FIRST"):
                            env[lp] = p_const(0)
                        elif cur == "LAST":
                            env[tgt] = "PREV(LAST)"
                            env[lp] = p_const(1)
                        else:
                            raise AnalysisError("unbounded-end: PreviousBucket of %s" % cur)
                        return
                    if lp is None:
                        raise AnalysisError("unbounded-end: store %s" % text(s))
                    env[lp] = val(s.kids[1])
                elif k == "UnaryOperator" and s.v in ("++", "post++", "--", "post--"):
                    lp = path(s.kids[0])
                    env[lp] = p_add(env[lp], p_const(1), 1 if "+" in s.v else -1)
                elif k in ("DoStmt", "NullStmt") or s.mo in ("assert", "Py_INCREF", "Py_DECREF",
                                                           "Py_XDECREF", "PER_UNUSE"):
                    pass
                elif k == "CallExpr" and callee(s)[1] in ("Py_INCREF", "Py_DECREF", "_Py_INCREF", "_Py_DECREF"):
                    pass
                else:
                    raise AnalysisError("unbounded-end: statement %s at %s:%s" % (k, s.f, s.l))

            try:
                run(branch)
                b, o = env.get(bvar), env.get(ovar)
                if not isinstance(b, str) or o is None or isinstance(o, str):
                    raise AnalysisError("unbounded-end: %s end not computed (%r, %r)" % (which, b, o))
                got = "%s[%s]" % (b, show(o))
            except _Goto as g:
                got = "EMPTY" if g.label.startswith("empty") else "ERR" if g.label.startswith("err") \
                    else "goto " + g.label
            except _ShapeDependent as sd:
                got = "depends on the root's child count (%s)" % sd.cond
            table[(which, excl, many, single)] = got
    return table


def c_unbounded_spec(which, excl, many, single):
    if which == "min":
        if not excl:
            return "FIRST[%s]" % show(p_const(0))
        if many:
            return "FIRST[%s]" % show(p_const(1))
        return "EMPTY" if single else "NEXT(FIRST)[%s]" % show(p_const(0))
    last = _leaflen("LAST")
    if not excl:
        return "LAST[%s]" % show(p_add(last, p_const(1), -1))
    if many:
        return "LAST[%s]" % show(p_add(last, p_const(2), -1))
    return "EMPTY" if single else "PREV(LAST)[%s]" % show(p_add(_leaflen("PREV(LAST)"), p_const(1), -1))


# ---------------------------------------------------------------------------
# ENDS-CROSS (C BTree_rangeSearch): after both end positions are known the
# range may still be empty because the ends crossed.  Same leaf: decided by
# the offsets.  Different leaves: decided by comparing the two end keys, which
# is needed exactly when both ends were moved inward (by a given bound or by an
# exclusive omitted bound) - an end left at the first / last entry of the
# chain cannot be crossed.  Decision table over (min given, excludemin, max
# given, excludemax, same leaf): which emptiness tests run before the result
# is built.

def c_cross_table(tu):
    body = tu.body("BTree_rangeSearch")
    stmts = list(body.kids)
    # the tail: statements after the second `!= None` branch
    idx = [i for i, s in enumerate(stmts)
           if s.k == "IfStmt" and len(s.kids) > 2 and "_Py_NoneStruct" in text(s.kids[0])
           and path(strip(s.kids[0]).kids[0]) in ("min", "max")]
    if len(idx) != 2:
        raise AnalysisError("anchor vanished: bound branches of BTree_rangeSearch (%d)" % len(idx))
    tail = stmts[idx[1] + 1:]
    table = {}
    for mg, emin, xg, emax, same in itertools.product((True, False), repeat=5):
        tests = []

        class _Done(Exception):
            pass

        def cond(e):
            e = strip(e)
            if e.k == "ParenExpr":
                return cond(e.kids[0])
            if e.k == "UnaryOperator" and e.v == "!":
                v = cond(e.kids[0])
                return None if v is None else not v
            if e.k == "BinaryOperator" and e.v in ("&&", "||"):
                l = cond(e.kids[0])
                if e.v == "&&" and l is False:
                    return False
                if e.v == "||" and l is True:
                    return True
                r = cond(e.kids[1])
                if l is None or r is None:
                    if e.v == "&&" and r is False:
                        return False
                    if e.v == "||" and r is True:
                        return True
                    return None
                return (l and r) if e.v == "&&" else (l or r)
            if e.k == "DeclRefExpr" and e.n in ("excludemin", "excludemax"):
                return emin if e.n == "excludemin" else emax
            if e.k == "BinaryOperator" and e.v in ("==", "!="):
                a, b = path(e.kids[0]), path(e.kids[1])
                if a in ("min", "max") and "_Py_NoneStruct" in text(e.kids[1]):
                    given = mg if a == "min" else xg
                    return given == (e.v == "!=")
                if {a, b} == {"lowbucket", "highbucket"}:
                    return same == (e.v == "==")
            if e.k == "BinaryOperator" and e.v in (">", "<", ">=", "<="):
                a, b = path(e.kids[0]), path(e.kids[1])
                if {a, b} == {"lowoffset", "highoffset"}:
                    if (e.v == ">" and a == "lowoffset") or (e.v == "<" and a == "highoffset"):
                        return "offsets"
                    raise AnalysisError("ends-cross: offset comparison %s" % text(e))
                if a == "cmp" and e.v == ">" and const_int(e.kids[1]) == 0:
                    return "keys"
            raise AnalysisError("ends-cross: condition %s at %s:%s" % (text(e), e.f, e.l))

        def goes_empty(s):
            gs = [n for n in s.walk() if n.k == "GotoStmt"]
            return bool(gs) and all((g.n or "").startswith("empty") for g in gs)

        def run(s):
            k = s.k
            if k == "CompoundStmt":
                for c in s.kids:
                    run(c)
                return
            if s.mo == "PER_UNUSE" and "self" in text(s):
                raise _Done()
            if k == "ReturnStmt":
                raise _Done()
            if k == "IfStmt":
                ctext = text(s.kids[0])
                if "setstate(" in ctext:
                    neg = strip(s.kids[0]).k == "UnaryOperator" and strip(s.kids[0]).v == "!"
                    if neg:
                        if len(s.kids) > 2:
                            run(s.kids[2])
                    else:
                        run(s.kids[1])
                    return
                if s.mo == "TEST_KEY_SET_OR":
                    cs = [n for n in s.kids[0].walk() if n.k == "DeclRefExpr"]
                    names = set(n.n for n in cs)
                    if not {"first", "last"} <= names:
                        raise AnalysisError("ends-cross: TEST_KEY_SET_OR over %s" % sorted(names))
                    tests.append("compared")
                    return
                v = cond(s.kids[0])
                if v in ("offsets", "keys"):
                    if v == "keys" and "compared" not in tests:
                        raise AnalysisError("ends-cross: cmp tested before the keys were compared")
                    if not goes_empty(s.kids[1]):
                        raise AnalysisError("ends-cross: crossed ends do not lead to the empty result at %s:%s" % (s.f, s.l))
                    tests.append(v)
                    return
                if isinstance(v, str):
                    raise AnalysisError("ends-cross: mixed condition %s" % text(s.kids[0]))
                if v is None:
                    raise AnalysisError("ends-cross: undecided condition %s" % text(s.kids[0]))
                if v:
                    run(s.kids[1])
                elif len(s.kids) > 2:
                    run(s.kids[2])
                return
            if k in ("DeclStmt", "NullStmt", "DoStmt", "BinaryOperator", "CallExpr") or \
                    s.mo in ("PER_UNUSE", "COPY_KEY", "assert"):
                return
            raise AnalysisError("ends-cross: statement %s at %s:%s" % (k, s.f, s.l))

        try:
            for s in tail:
                run(s)
        except _Done:
            pass
        table[(mg, emin, xg, emax, same)] = sorted(set(t for t in tests if t != "compared"))
    return table


def c_cross_spec(mg, emin, xg, emax, same):
    """Required emptiness tests (a superfluous key comparison is harmless)."""
    if same:
        return ["offsets"]
    if (mg or emin) and (xg or emax):
        return ["keys"]
    return []
