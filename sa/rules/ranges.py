"""Range searches and lazy sequences (C02).

RANGE-TABLE    leaf-level endpoint decision tables: for every valuation of
               (found, low/high, exclusive) the endpoint is an affine offset of
               the search index; C Bucket_findRangeEnd and Python _range must
               equal the specification (least index with key >= (>) min,
               greatest index with key <= (<) max)
BOUND-NORM     an omitted bound and None are treated alike at every range
               entry point
SEEK-ALGEBRA   BTreeItems_seek keeps (pseudoindex, currentoffset) consistent:
               along every path of its two loops the updates are the affine
               functions the leaf geometry dictates
ITER-CONTINUE  Python _TreeItems.__iter__ moves on to the next leaf unless a
               leaf *after the first* yielded nothing
"""
import ast
import itertools

from ..cir import strip, strip_parens, path, callee, text, const_int
from ..common import AnalysisError, SRC
from .. import pyfront
from .length import p_add, p_mul, p_const, p_var, show

REL = SRC + "/_base.py"


# ---------------------------------------------------------------------------
# RANGE-TABLE, C

def c_range_table(tu):
    fn = tu.func("Bucket_findRangeEnd")
    body = tu.body("Bucket_findRangeEnd")
    kids = list(body.kids)
    # statements after the BUCKET_SEARCH expansion
    start = None
    for i, s in enumerate(kids):
        if s.mo == "BUCKET_SEARCH":
            start = i
    if start is None:
        raise AnalysisError("anchor vanished: BUCKET_SEARCH in Bucket_findRangeEnd")
    rest = kids[start + 1:]
    table = {}
    for found, low, excl in itertools.product((True, False), repeat=3):
        env = {"i": p_var("I")}
        facts = {"range_test": False, "stored": None}

        def cond(e):
            e = strip(e)
            if e.k == "UnaryOperator" and e.v == "!":
                return not cond(e.kids[0])
            if e.k == "DeclRefExpr":
                if e.n == "low":
                    return low
                if e.n == "exclude_equal":
                    return excl
                if e.n == "result":
                    return True
            if e.k == "BinaryOperator" and e.v == "==" and path(e.kids[0]) == "cmp" and \
                    const_int(e.kids[1]) == 0:
                return found
            if e.k == "BinaryOperator" and e.v == "!=" and path(e.kids[0]) == "cmp" and \
                    const_int(e.kids[1]) == 0:
                return not found
            raise AnalysisError("range table: unrecognised condition %s at %s:%s" % (text(e), e.f, e.l))

        def run(s):
            k = s.k
            if k == "CompoundStmt":
                for c in s.kids:
                    run(c)
            elif k == "IfStmt":
                if cond(s.kids[0]):
                    run(s.kids[1])
                elif len(s.kids) > 2:
                    run(s.kids[2])
            elif k == "NullStmt":
                pass
            elif k == "UnaryOperator" and s.v in ("++", "post++", "--", "post--") and path(s.kids[0]) == "i":
                env["i"] = p_add(env["i"], p_const(1), 1 if "+" in s.v else -1)
            elif k == "BinaryOperator" and s.v == "=":
                lp = path(s.kids[0])
                if lp == "result":
                    t = text(s.kids[1]).replace(" ", "")
                    facts["range_test"] = ("0<=i" in t and "i<self->len" in t)
                elif lp == "*offset":
                    facts["stored"] = show(env["i"]) if path(s.kids[1]) == "i" else text(s.kids[1])
                elif lp == "i":
                    raise AnalysisError("range table: assignment to i")
            elif k == "LabelStmt":
                pass
            elif k in ("ReturnStmt",) or s.unit if hasattr(s, "unit") else False:
                pass
            elif k in ("DoStmt", "CallExpr", "ReturnStmt"):
                pass
            else:
                raise AnalysisError("range table: unrecognised statement %s at %s:%s" % (k, s.f, s.l))
        for s in rest:
            if s.k == "LabelStmt":
                break
            run(s)
        table[(found, low, excl)] = (facts["stored"], facts["range_test"])
    return table


def range_spec(found, low, excl):
    """offset of the endpoint relative to the search index I
    (I = index of the key if found, else insertion index)."""
    if low:
        k = (1 if excl else 0) if found else 0
    else:
        k = (-1 if excl else 0) if found else -1
    return show(p_add(p_var("I"), p_const(k)))


# ---------------------------------------------------------------------------
# RANGE-TABLE, Python  (_BucketBase._range)

def py_range_table():
    tree = pyfront.base_py()
    fn = pyfront.class_members(pyfront.classes(tree)["_BucketBase"]).get("_range")
    if not isinstance(fn, ast.FunctionDef):
        raise AnalysisError("anchor vanished: _BucketBase._range")
    table = {}
    for given, found, excl in itertools.product((True, False), repeat=3):
        for which in ("min", "max"):
            env = {}

            def ev(e):
                if isinstance(e, ast.Constant):
                    return p_const(e.value) if isinstance(e.value, int) else e.value
                if isinstance(e, ast.Name):
                    if e.id in env:
                        return env[e.id]
                    raise AnalysisError("py range table: name %s" % e.id)
                if isinstance(e, ast.UnaryOp) and isinstance(e.op, ast.USub):
                    return p_mul(p_const(-1), ev(e.operand))
                if isinstance(e, ast.BinOp) and isinstance(e.op, (ast.Add, ast.Sub)):
                    a, b = ev(e.left), ev(e.right)
                    return p_add(a, b, 1 if isinstance(e.op, ast.Add) else -1)
                if isinstance(e, ast.Call):
                    f = pyfront.unparse(e.func)
                    if f == "self._search":
                        # found: the index; absent: -(insertion index) - 1
                        return p_var("I") if found else p_add(p_mul(p_const(-1), p_var("I")), p_const(-1))
                    if f == "self._to_key":
                        return "KEY"
                    if f == "len":
                        return p_var("LEN")
                raise AnalysisError("py range table: expression %s" % pyfront.unparse(e))

            def test(t):
                s = pyfront.unparse(t)
                if s in ("%s is _marker or %s is None" % (which, which),):
                    return not given
                if s in ("start >= 0", "end >= 0"):
                    return found
                if s == "excludemin" or s == "excludemax":
                    return excl
                if s in ("not excludemax", "not excludemin"):
                    return not excl
                other = "max" if which == "min" else "min"
                if s == "%s is _marker or %s is None" % (other, other):
                    return True
                raise AnalysisError("py range table: test %s" % s)

            def run(stmts):
                for st in stmts:
                    if isinstance(st, ast.If):
                        # only follow the statement that handles `which`
                        run(st.body if test(st.test) else st.orelse)
                    elif isinstance(st, ast.Assign):
                        env[st.targets[0].id] = ev(st.value)
                    elif isinstance(st, ast.AugAssign):
                        cur = env[st.target.id]
                        env[st.target.id] = p_add(cur, ev(st.value), 1 if isinstance(st.op, ast.Add) else -1)
                    elif isinstance(st, ast.Return):
                        pass
                    elif isinstance(st, ast.Expr):
                        pass
                    else:
                        raise AnalysisError("py range table: statement %s" % type(st).__name__)
            # the two top-level ifs: first handles min, second max
            ifs = [s for s in fn.body if isinstance(s, ast.If)]
            if len(ifs) != 2:
                raise AnalysisError("unrecognised idiom: _range")
            run([ifs[0] if which == "min" else ifs[1]])
            v = env.get("start" if which == "min" else "end")
            table[(which, given, found, excl)] = show(v) if isinstance(v, dict) else repr(v)
    return table


def py_range_spec(which, given, found, excl):
    """start (inclusive) / end (exclusive) of the slice."""
    if which == "min":
        if not given:
            return show(p_const(1 if excl else 0))
        k = (1 if excl else 0) if found else 0
        return show(p_add(p_var("I"), p_const(k)))
    if not given:
        return show(p_add(p_var("LEN"), p_const(-1 if excl else 0)))
    k = (0 if excl else 1) if found else 0
    return show(p_add(p_var("I"), p_const(k)))


# ---------------------------------------------------------------------------
# SEEK-ALGEBRA

def seek_algebra(tu):
    """Affine effect of each loop-body path of BTreeItems_seek on
    (pseudoindex, delta, currentoffset)."""
    fn = tu.func("BTreeItems_seek")
    loops = [s for s in tu.body("BTreeItems_seek").kids if s.k == "WhileStmt"]
    if len(loops) != 2:
        raise AnalysisError("anchor vanished: the two loops of BTreeItems_seek")
    results = []
    for li, loop in enumerate(loops):
        paths = []

        def ev(e, env):
            e = strip(e)
            c = const_int(e)
            if c is not None:
                return p_const(c)
            if e.k == "DeclRefExpr":
                if e.n in env:
                    return env[e.n]
                raise AnalysisError("seek: variable %s at %s:%s" % (e.n, e.f, e.l))
            if e.k == "MemberExpr" and e.n == "len":
                return p_var("L%s" % env["#bucket"])
            if e.k == "UnaryOperator" and e.v == "-":
                return p_mul(p_const(-1), ev(e.kids[0], env))
            if e.k == "BinaryOperator" and e.v in ("+", "-"):
                return p_add(ev(e.kids[0], env), ev(e.kids[1], env), 1 if e.v == "+" else -1)
            raise AnalysisError("seek: expression %s at %s:%s" % (text(e), e.f, e.l))

        def run(stmts, env, events):
            """returns list of (env, events, finished)"""
            states = [(env, events)]
            for s in stmts:
                nxt = []
                for env, events in states:
                    nxt.extend(step(s, dict(env), list(events)))
                states = [(e, ev_) for e, ev_, fin in nxt if not fin]
                for e, ev_, fin in nxt:
                    if fin == "break":
                        paths.append((e, ev_ + ["break"]))
                if not states:
                    break
            return [(e, ev_, False) for e, ev_ in states]

        def step(s, env, events):
            k = s.k
            if k == "CompoundStmt":
                return run(list(s.kids), env, events)
            if k in ("NullStmt", "DeclStmt"):
                return [(env, events, False)]
            if k == "DoStmt":     # PER_UNUSE
                return [(env, events, False)]
            if k == "IfStmt":
                # persistence acquire-or-return: failure path leaves the function
                from ..cfg import match_acq_stmt
                if match_acq_stmt(s) is not None:
                    return [(env, events, False)]
                out = []
                out.extend(step(s.kids[1], dict(env), events + ["T:" + text(s.kids[0])[:40]]))
                if len(s.kids) > 2:
                    out.extend(step(s.kids[2], dict(env), events + ["F:" + text(s.kids[0])[:40]]))
                else:
                    out.append((env, events + ["F:" + text(s.kids[0])[:40]], False))
                return out
            if k in ("GotoStmt", "ReturnStmt"):
                return [(env, events, "exit")]
            if k == "BreakStmt":
                return [(env, events, "break")]
            if k == "CompoundAssignOperator":
                v = path(s.kids[0])
                r = ev(s.kids[1], env)
                env[v] = p_add(env[v], r, 1 if s.v == "+=" else -1)
                return [(env, events, False)]
            if k == "BinaryOperator" and s.v == "=":
                v = path(s.kids[0])
                r0 = strip(s.kids[1])
                if v == "currentbucket":
                    env["#bucket"] = env["#bucket"] + 1
                    events = events + ["next"]
                elif v == "b":
                    pass
                elif r0.k == "CallExpr" and callee(r0) == ("fn", "PreviousBucket"):
                    env["#bucket"] = env["#bucket"] + 1
                    events = events + ["prev"]
                    env[v] = p_const(1)
                elif v in ("max", "pseudoindex", "delta", "currentoffset", "status"):
                    env[v] = ev(s.kids[1], env)
                else:
                    raise AnalysisError("seek: assignment to %s" % v)
                return [(env, events, False)]
            raise AnalysisError("seek: unrecognised statement %s at %s:%s" % (k, s.f, s.l))
        env0 = {"pseudoindex": p_var("P"), "delta": p_var("D"), "currentoffset": p_var("O"),
                "#bucket": 0}
        end = run(list(loop.kids[-1].kids), env0, [])
        for e, ev_, fin in end:
            paths.append((e, ev_))
        for e, ev_ in paths:
            kind = "next" if "next" in ev_ else "prev" if "prev" in ev_ else \
                   "within" if "break" in ev_ else "other"
            results.append((li, kind, show(e["pseudoindex"]), show(e["delta"]) if kind != "within" else None,
                            show(e["currentoffset"])))
    return sorted(set(results), key=repr)


def seek_spec():
    P, D, O = p_var("P"), p_var("D"), p_var("O")
    L0, L1 = p_var("L0"), p_var("L1")
    one = p_const(1)
    step_r = p_add(L0, O, -1)                      # items up to the end of this leaf + 1
    step_l = p_add(O, one)
    return sorted(set([
        (0, "within", show(p_add(P, D)), None, show(p_add(O, D))),
        (0, "next", show(p_add(P, step_r)), show(p_add(D, step_r, -1)), show(p_const(0))),
        (1, "within", show(p_add(P, D)), None, show(p_add(O, D))),
        (1, "prev", show(p_add(P, step_l, -1)), show(p_add(D, step_l)), show(p_add(L1, one, -1))),
    ]), key=repr)


# ---------------------------------------------------------------------------
# ITER-CONTINUE (Python _TreeItems.__iter__)

def iter_continue():
    tree = pyfront.base_py()
    fn = pyfront.class_members(pyfront.classes(tree)["_TreeItems"]).get("__iter__")
    if not isinstance(fn, ast.FunctionDef):
        raise AnalysisError("anchor vanished: _TreeItems.__iter__")
    out = {}
    for ys in itertools.product((True, False), repeat=3):
        env = {"#bucket": 0}
        visited = []

        class Stop(Exception):
            pass

        def truth(t):
            s = pyfront.unparse(t)
            if s == "bucket is not None":
                return env["#bucket"] < 3
            if isinstance(t, ast.Name):
                return bool(env[t.id])
            if isinstance(t, ast.UnaryOp) and isinstance(t.op, ast.Not):
                return not truth(t.operand)
            raise AnalysisError("iter-continue: test %s" % s)

        def run(stmts):
            for st in stmts:
                if isinstance(st, ast.Assign):
                    tg = pyfront.unparse(st.targets[0])
                    vs = pyfront.unparse(st.value)
                    if tg == "bucket" and vs == "bucket._next":
                        env["#bucket"] += 1
                    elif isinstance(st.value, ast.Constant):
                        env[tg] = st.value.value
                    elif tg in ("bucket", "itertype", "iterargs"):
                        pass
                    else:
                        raise AnalysisError("iter-continue: assignment %s" % pyfront.unparse(st))
                elif isinstance(st, ast.While):
                    guard = 0
                    while truth(st.test):
                        guard += 1
                        if guard > 10:
                            raise AnalysisError("iter-continue: loop does not advance")
                        run(st.body)
                elif isinstance(st, ast.For):
                    visited.append(env["#bucket"])
                    if ys[env["#bucket"]]:
                        run(st.body)
                elif isinstance(st, ast.If):
                    run(st.body if truth(st.test) else st.orelse)
                elif isinstance(st, ast.Return):
                    raise Stop()
                elif isinstance(st, ast.Expr):
                    pass
                else:
                    raise AnalysisError("iter-continue: statement %s" % type(st).__name__)
        try:
            run(fn.body)
        except Stop:
            pass
        out[ys] = visited
    return out


def iter_spec(ys):
    visited = [0]
    for k in (1, 2):
        # leaf k is visited unless an earlier leaf other than the first yielded nothing
        if all(ys[j] for j in range(1, k)):
            visited.append(k)
        else:
            break
    return visited


# ---------------------------------------------------------------------------
# BOUND-NORM

def bound_norm_py(res):
    tree = pyfront.base_py()
    n = 0
    for cname, cls in pyfront.classes(tree).items():
        for mname, fn in pyfront.class_members(cls).items():
            if not isinstance(fn, ast.FunctionDef):
                continue
            params = set(a.arg for a in fn.args.args)
            for c in ast.walk(fn):
                if isinstance(c, ast.Compare) and len(c.ops) == 1 and \
                        isinstance(c.ops[0], (ast.Is, ast.IsNot)) and \
                        pyfront.unparse(c.comparators[0]) == "_marker" and \
                        isinstance(c.left, ast.Name) and c.left.id in ("min", "max", "key") \
                        and c.left.id in params:
                    n += 1
                    par = getattr(c, "_parent", None)
                    want = "%s %s None" % (c.left.id, "is" if isinstance(c.ops[0], ast.Is) else "is not")
                    ok = isinstance(par, ast.BoolOp) and any(
                        pyfront.unparse(v) == want for v in par.values) and \
                        isinstance(par.op, ast.Or if isinstance(c.ops[0], ast.Is) else ast.And)
                    if not ok:
                        res.findings.add(dict(
                            rule="BOUND-NORM", function="%s.%s" % (cname, mname), file=REL,
                            line=c.lineno, construct="`%s` not paired with `%s`" % (pyfront.unparse(c), want),
                            detail="an omitted bound and an explicit None must "
                                   "mean the same (unbounded) at every range "
                                   "entry point", path=[]))
    res.count("PY-BOUND-NORM", n)
    res.floor("python omitted-bound tests", n, 6)


def bound_norm_c(tu):
    findings = []
    n = 0
    for name in tu.order:
        fn = tu.funcs[name]
        for call in fn.walk():
            if call.k != "CallExpr" or callee(call)[0] != "fn" or \
                    callee(call)[1] not in ("PyArg_ParseTuple", "PyArg_ParseTupleAndKeywords"):
                continue
            fi = 1 if callee(call)[1] == "PyArg_ParseTuple" else 2
            f0 = strip(call.kids[1 + fi])
            if f0 is None or f0.k != "StringLiteral":
                continue
            fmt = (f0.v or "").strip('"').split(":")[0]
            if "|" not in fmt or not any(s in name for s in ("rangeSearch", "maxminKey")):
                continue
            outs = call.kids[2 + fi + (1 if fi == 2 else 0):]
            units = [ch for ch in fmt if ch.isalpha() or ch == "|"]
            opt = False
            vars_ = []
            j = 0
            for ch in units:
                if ch == "|":
                    opt = True
                    continue
                if j < len(outs):
                    o = strip(outs[j])
                    if opt and ch == "O" and o is not None and o.k == "UnaryOperator":
                        vars_.append(path(o.kids[0]))
                j += 1
            for v in vars_:
                init = None
                for d in fn.walk():
                    if d.k == "VarDecl" and d.n == v and d.kids:
                        init = text(d.kids[-1])
                n += 1
                if init is not None and "_Py_NoneStruct" in init:
                    continue
                # NULL default: each truthiness test of v must be conjoined with
                # a None test in the same condition
                def truth_tests(e, out):
                    e0 = strip_parens(e)
                    while e0 is not None and e0.k == "ImplicitCastExpr":
                        e0 = strip_parens(e0.kids[0])
                    if e0 is None:
                        return
                    if e0.k == "DeclRefExpr" and e0.n == v:
                        out.append(e0)
                    elif e0.k == "UnaryOperator" and e0.v == "!":
                        truth_tests(e0.kids[0], out)
                    elif e0.k == "BinaryOperator" and e0.v in ("&&", "||"):
                        truth_tests(e0.kids[0], out)
                        truth_tests(e0.kids[1], out)
                    elif e0.k == "BinaryOperator" and e0.v in ("==", "!=") and \
                            path(e0.kids[0]) == v and const_int(e0.kids[1]) == 0:
                        out.append(e0)
                for c in fn.walk():
                    if c.k == "IfStmt":
                        tests = []
                        truth_tests(c.kids[0], tests)
                        ct = text(c.kids[0]).replace(" ", "")
                        if tests and ("%s!=&_Py_NoneStruct" % v) not in ct and \
                                ("%s==&_Py_NoneStruct" % v) not in ct:
                            findings.append(dict(
                                rule="BOUND-NORM", function=name, file=c.f, line=c.l,
                                construct="bound `%s` tested without a None test: %s" % (v, ct[:60]),
                                detail="an omitted bound and an explicit None "
                                       "must mean the same (unbounded)", path=[]))
    return dict(findings=findings, n=n)


# ---------------------------------------------------------------------------
# TREE-EXCLUDE (Python): an exclusive *omitted* bound must drop only the
# overall smallest / largest key, so the exclusion flag of an omitted bound
# must not reach the per-leaf range computation of every leaf.

def tree_exclude_py(res):
    tree = pyfront.base_py()
    keys = pyfront.class_members(pyfront.classes(tree)["_Tree"]).get("keys")
    it = pyfront.class_members(pyfront.classes(tree)["_TreeItems"]).get("__iter__")
    if not isinstance(keys, ast.FunctionDef) or not isinstance(it, ast.FunctionDef):
        raise AnalysisError("anchor vanished: _Tree.keys / _TreeItems.__iter__")
    res.count("PY-TREE-EXCLUDE", 2)
    # iterargs built from the raw flags?
    raw = None
    for a in ast.walk(keys):
        if isinstance(a, ast.Assign) and pyfront.unparse(a.targets[0]) == "iterargs":
            raw = pyfront.unparse(a.value)
    per_leaf = any(isinstance(c, ast.Call) and any(isinstance(x, ast.Starred) and
                                                   pyfront.unparse(x.value) == "iterargs" for x in c.args)
                   for lp in ast.walk(it) if isinstance(lp, ast.While) for c in ast.walk(lp))
    if raw is not None and "excludemin" in raw and "excludemax" in raw and per_leaf:
        # is the flag cleared / applied once anywhere?
        cleared = any(isinstance(a, ast.Assign) and "exclude" in pyfront.unparse(a.targets[0])
                      for a in ast.walk(it)) or any(
            isinstance(a, ast.Assign) and pyfront.unparse(a.targets[0]) in ("excludemin", "excludemax")
            for a in ast.walk(keys))
        if not cleared:
            res.findings.add(dict(
                rule="TREE-EXCLUDE", function="_TreeItems.__iter__", file=REL, line=it.lineno,
                construct="exclusion flags of omitted bounds are applied to every leaf",
                detail="_Tree.keys forwards (min, max, excludemin, excludemax) "
                       "unchanged and _TreeItems.__iter__ hands them to the "
                       "range computation of every leaf: with an omitted "
                       "bound, excludemin/excludemax drop the first/last key "
                       "of *each* leaf instead of only the overall smallest/"
                       "largest key", path=[]))
