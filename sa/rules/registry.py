"""FAMILY-REG (C09): the registries of families agree, each stub resolves to
the key/value types its letters promise, and the per-family inventory of
module-level functions is the same in C and Python."""
import ast

from ..common import AnalysisError, SRC
from .. import pyfront, cfront, ctables

LETTER_TYPES = {"O": ("PyObject *",), "I": ("int",), "U": ("unsigned int",),
                "L": ("long long", "long"), "Q": ("unsigned long long", "unsigned long"),
                "F": ("float",)}


def _tuple_assign(tree, name):
    for n in tree.body:
        if isinstance(n, ast.Assign) and any(isinstance(t, ast.Name) and t.id == name
                                             for t in n.targets):
            try:
                return [ast.literal_eval(e) for e in n.value.elts]
            except Exception:
                raise AnalysisError("%s is not a literal tuple" % name)
    raise AnalysisError("anchor vanished: %s" % name)


def check(res, rows, module_funcs):
    """rows: {family: dtype_row}; module_funcs: {family: [names of C module functions]}"""
    n = 0
    setup = cfront.families()
    init = _tuple_assign(pyfront.module(SRC + "/__init__.py"), "_FAMILIES")
    chk = _tuple_assign(pyfront.module(SRC + "/check.py"), "_FAMILIES")
    stubs = sorted(cfront._all_stub_names())
    for name, lst in (("BTrees/__init__.py _FAMILIES", init), ("BTrees/check.py _FAMILIES", chk),
                      ("stub files _XYBTree.c", stubs)):
        n += 1
        if sorted(lst) != sorted(setup):
            res.findings.add(dict(
                rule="FAMILY-REG", function=name, file="setup.py", line=1,
                construct="%s differs from setup.py FAMILIES: %s" % (
                    name, sorted(set(lst) ^ set(setup))),
                detail="the family registries disagree: a family is built but "
                       "not importable / not known to check(), or vice versa", path=[]))
    for fam, row in sorted(rows.items()):
        if fam == "fs":
            continue
        for pos, role in ((0, "key"), (1, "value")):
            n += 1
            if row[role] not in LETTER_TYPES.get(fam[pos], ()):
                res.findings.add(dict(
                    rule="FAMILY-REG", function="_%sBTree" % fam, file="src/BTrees/_%sBTree.c" % fam,
                    line=1, construct="%s %s resolves to %s" % (fam, role, row[role]),
                    detail="the stub's macro configuration gives the %s type "
                           "`%s`, not what the letter %s promises %s" % (
                               role, row[role], fam[pos], LETTER_TYPES.get(fam[pos])), path=[]))
    # inventory of module-level functions: C module_methods vs what
    # _create_set_operations builds from supports_value_union()
    dt = pyfront.module(SRC + "/_datatypes.py")

    def supports(code):
        cls = {"O": "O", "f": "f", "s": "s"}.get(code, code)
        r = pyfront.resolve(dt, cls, "supports_value_union")
        if r is None or r[1] is None:
            raise AnalysisError("supports_value_union of datatype %s" % code)
        rets = [x for x in ast.walk(r[1]) if isinstance(x, ast.Return)]
        if len(rets) != 1 or not isinstance(rets[0].value, ast.Constant):
            raise AnalysisError("unrecognised idiom: supports_value_union of %s" % code)
        return bool(rets[0].value.value)
    for fam, names in sorted(module_funcs.items()):
        k, v = fam[0], fam[1]
        want = {"difference", "union", "intersection"}
        if supports(v if fam != "fs" else "s"):
            want |= {"weightedUnion", "weightedIntersection"}
        if supports(k if fam != "fs" else "f"):
            want |= {"multiunion"}
        n += 1
        if set(names) != want:
            res.findings.add(dict(
                rule="FAMILY-REG", function="_%sBTree module functions" % fam,
                file="src/BTrees/BTreeModuleTemplate.c", line=1,
                construct="%s: C has %s, Python creates %s" % (fam, sorted(names), sorted(want)),
                detail="the module-level set functions of family %s differ "
                       "between the C module and the Python fallback" % fam, path=[]))
    res.count("FAMILY-REG", n)
    return n


def module_functions(tu):
    mt = ctables.method_tables(tu).get("module_methods")
    if mt is None:
        raise AnalysisError("anchor vanished: module_methods in %s" % tu.stub)
    return [name for name, fn in mt]
