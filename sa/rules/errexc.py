"""ERR-NOEXC: an error return is made only with an exception pending.

Path rule over the CFG of the cursor / lazy-sequence functions (C15): the
abstract state is whether an exception is certainly pending ("yes"), certainly
not ("no") or unknown ("maybe").  It becomes "yes" on the failing edge of an
activation, after PyErr_Set* / PyErr_Format / PyErr_NoMemory, and on a branch
edge that can only be taken with the *error value* of a call result (negative
for int results, NULL for pointers); "no" after PyErr_Clear; "maybe" on an edge
that mixes error and non-error values of the result (e.g. `status <= 0` for a
callee that returns -1 / 0 / 1).  The value sets of repository callees are read
off their return statements.  A `return -1` / `return NULL` reached in state
"no" or "maybe" is reported: the interpreter turns it into SystemError("error
return without exception set") - or, for a cursor, hides a stale exception.
"""
from ..cir import strip, strip_parens, path, callee, text, const_int
from ..cfg import CFG
from ..flow import Analysis, sget, sset, sdel, witness_lines
from ..common import AnalysisError

SETTERS = ("PyErr_SetString", "PyErr_SetObject", "PyErr_Format", "PyErr_NoMemory",
           "PyErr_SetNone", "PyErr_BadInternalCall", "PyErr_BadArgument")
# external int-returning APIs whose only values are 0 (success) and -1 (error)
STATUS_ONLY = frozenset("""PyList_Append PyList_SetItem PyList_Sort PyDict_SetItem PyDict_SetItemString
PyObject_SetAttr PyObject_SetAttrString PyTuple_SetItem PyModule_AddObject PyArg_ParseTuple
PyList_SetSlice PyObject_SetItem PyType_Ready PySet_Add""".split())
# external APIs that return 0 for failure (with exception) - boolean convention
ZERO_IS_ERROR = frozenset("PyArg_ParseTuple PyArg_ParseTupleAndKeywords PyArg_UnpackTuple".split())


# pointer-returning lookups whose NULL means "not there" (no exception set)
NULL_NOT_ERROR = frozenset("""PyDict_GetItem PyDict_GetItemString PyDict_GetItemWithError
PyErr_Occurred PyWeakref_GetObject PyTuple_GET_ITEM PyList_GET_ITEM
malloc realloc calloc""".split())       # (the C allocators fail without touching the error indicator)


class _RetVals(Analysis):
    def __init__(self, cfg, tu):
        Analysis.__init__(self, cfg, tu)
        self.live = self._flag_liveness()

    def extra_uses(self, node):
        out = set()
        if node.kind == "return" and node.e is not None:
            for n in node.e.walk():
                if n.k == "DeclRefExpr" and self.is_flag_var(n.n):
                    out.add(n.n)
        return out

    def on_node(self, node, st):
        return [self.flags_stmt(node, st)]

    def on_edge(self, node, label, st):
        return self.flags_edge(node, label, st)


def return_values(tu, name, _memo={}):
    """set of integer constants the function can return (flag dataflow over
    its CFG), or None when some return value is not a known constant"""
    key = (tu.family, name)
    if key in _memo:
        return _memo[key]
    _memo[key] = None
    fn = tu.funcs[name]
    an = _RetVals(CFG(fn), tu)
    try:
        an.solve()
    except AnalysisError:
        return None
    vals = set()
    for r in an.cfg.returns():
        if r.e is None:
            continue
        for st in an.IN.get(r.id, ()):
            v = an.flag_value_of(r.e, st)
            if not isinstance(v, int):
                vals = None
                break
            vals.add(v)
        if vals is None:
            break
    _memo[key] = vals
    return vals


def error_consts(tu, name, _memo={}):
    """negative constants the repository function returns with an exception
    certainly pending (its error values); a function such as a three-way
    comparison returns -1 without one: that is not an error value"""
    key = (tu.family, name)
    if key in _memo:
        return _memo[key]
    _memo[key] = set()            # recursion guard
    fn = tu.funcs[name]
    if tu.body(name) is None:
        return set()
    an = ErrExc(CFG(fn), tu)
    an.strict = True
    try:
        an.solve()
    except AnalysisError:
        _memo[key] = None
        return None
    out = set()
    for r in an.cfg.returns():
        if r.e is None:
            continue
        c = const_int(r.e)
        if c is None or c >= 0:
            continue
        for st in an.IN.get(r.id, ()):
            if sget(an.flags_stmt(r, st), "x") == "yes":
                out.add(c)
    _memo[key] = out
    return out


# accessors of the C API that cannot fail (inline functions in CPython 3.12)
NO_FAIL_APIS = frozenset("""Py_REFCNT _Py_REFCNT Py_TYPE _Py_TYPE Py_IS_TYPE _Py_IS_TYPE Py_SIZE _Py_SIZE
    PyObject_TypeCheck _PyObject_TypeCheck PyType_IsSubtype Py_Is Py_IsNone PyType_HasFeature
    PyType_GetFlags""".split())


def null_without_exception(tu, name, _memo={}):
    """the repository function returns a pointer, and none of its returns of
    NULL (or of a value that may be NULL) is reached with an exception pending
    or possibly pending: NULL is an answer ("nothing found"), not a failure"""
    key = (tu.family, name)
    if key in _memo:
        return _memo[key]
    _memo[key] = False            # recursion guard
    fn = tu.funcs[name]
    if tu.body(name) is None or not (fn.t or "").split("(")[0].strip().endswith("*"):
        return False
    # it neither sets an exception nor calls anything that could
    for n in fn.walk():
        if n.k == "CallExpr":
            c = callee(n)
            if c[0] != "fn" or c[1] in SETTERS:
                return False
            if c[1] in NO_FAIL_APIS:
                continue
            if c[1] in tu.funcs and tu.body(c[1]) is not None:
                if c[1] != name and not null_without_exception(tu, c[1]) and \
                        (return_values(tu, c[1]) is None or error_consts(tu, c[1]) != set()):
                    return False
            else:
                return False
    an = ErrExc(CFG(fn), tu)
    an.strict = True
    try:
        an.solve()
    except AnalysisError:
        return False
    saw_null = False
    for r in an.cfg.returns():
        if r.e is None:
            return False
        for st in an.IN.get(r.id, ()):
            st2 = an.flags_stmt(r, st)
            if sget(st2, "x") != "no":
                return False
            if an.flag_value_of(r.e, st2) == 0:
                saw_null = True
    _memo[key] = saw_null
    return saw_null


class _Pending(object):
    pass


def clears_when_true(tu, name, _memo={}):
    """the repository function, entered with an exception pending, returns a
    non-zero constant exactly on the paths on which it has cleared it (and 0
    with the exception kept): `if (!forgives()) return NULL;`"""
    key = (tu.family, name)
    if key in _memo:
        return _memo[key]
    _memo[key] = False
    fn = tu.funcs[name]
    if tu.body(name) is None or not any(
            n.k == "CallExpr" and callee(n) == ("fn", "PyErr_Clear") for n in fn.walk()):
        return False
    if (fn.t or "").split("(")[0].strip() != "int":
        return False

    class _An(ErrExc):
        def initial(self):
            return frozenset([("x", "yes")])
    an = _An(CFG(fn), tu)
    try:
        an.solve()
    except AnalysisError:
        return False
    ok = True
    seen_true = False
    for r in an.cfg.returns():
        if r.e is None:
            return False
        for st in an.IN.get(r.id, ()):
            st2 = an.flags_stmt(r, st)
            v = an.flag_value_of(r.e, st2)
            x = sget(st2, "x")
            if not isinstance(v, int):
                ok = False
            elif v != 0:
                seen_true = True
                ok = ok and x == "no"
            else:
                ok = ok and x == "yes"
    _memo[key] = ok and seen_true
    return _memo[key]


def always_raises(tu, name, _memo={}):
    """True when every return of the repository function is reached with an
    exception certainly pending (helpers such as IndexError(i))."""
    key = (tu.family, name)
    if key in _memo:
        return _memo[key]
    _memo[key] = False          # recursion guard
    fn = tu.funcs[name]
    if not any(n.k == "CallExpr" and callee(n)[0] == "fn" and callee(n)[1] in SETTERS for n in fn.walk()):
        return False
    an = ErrExc(CFG(fn), tu)
    an.solve()
    ok = True
    for r in an.cfg.returns():
        for st in an.IN.get(r.id, ()):
            if sget(st, "x") != "yes":
                ok = False
    _memo[key] = ok
    return ok


class ErrExc(Analysis):
    def __init__(self, cfg, tu):
        Analysis.__init__(self, cfg, tu)
        self.reports = []
        self._seen = set()
        self.rt = (cfg.fn.t or "").split("(")[0].strip()
        self.returns_checked = 0
        self.live = self._flag_liveness()

    def initial(self):
        return frozenset([("x", "no")])

    def extra_uses(self, node):
        out = set()
        if node.kind == "return" and node.e is not None:
            for n in node.e.walk():
                if n.k == "DeclRefExpr" and self.is_flag_var(n.n):
                    out.add(n.n)
        return out

    # ---- call classification ------------------------------------------------
    def _domain(self, call):
        """(kind, values): kind 'ptr' / 'int' / 'zero-err'; values = set of
        possible ints or None"""
        c = callee(call)
        t = (call.t or "").strip()
        if c[0] == "fn" and c[1] in ZERO_IS_ERROR:
            return "zero-err", None
        if c[0] == "fn" and c[1] in NULL_NOT_ERROR:
            return "int", None            # NULL means "absent", no exception
        if t.endswith("*"):
            if c[0] == "fn" and c[1] in self.tu.funcs and c[1] != self.cfg.name and \
                    null_without_exception(self.tu, c[1]):
                return "plain", None          # NULL is an answer of this helper, not a failure
            return "ptr", None
        if c[0] == "fn" and c[1] in self.tu.funcs:
            vals = return_values(self.tu, c[1])
            if getattr(self, "strict", False) and vals and min(vals) < 0 and c[1] != self.cfg.name:
                ec = error_consts(self.tu, c[1])
                if ec is not None and not ec:
                    return "plain", vals      # negative results without an exception: not error values
            return "int", vals
        if c[0] == "fn" and c[1] in STATUS_ONLY:
            return "int", {0, -1}
        return "int", None

    def _rhs_domain(self, rhs):
        """domain of `v = rhs`: a call, or a conditional whose arms are calls"""
        if rhs is None:
            return None
        if rhs.k == "CallExpr":
            return self._domain(rhs)
        if rhs.k == "ConditionalOperator":
            a, b = self._rhs_domain(strip(rhs.kids[1])), self._rhs_domain(strip(rhs.kids[2]))
            if a is not None and b is not None and a[0] == b[0]:
                return a[0], (set(a[1]) | set(b[1])) if (a[1] and b[1]) else None
        return None

    def _edge_class(self, kind, vals, op, cst, want):
        """'err' / 'ok' / 'mixed' for the edge on which (result OP cst) == want"""
        def holds(x):
            r = {"==": x == cst, "!=": x != cst, "<": x < cst, ">": x > cst,
                 "<=": x <= cst, ">=": x >= cst}[op]
            return r == want
        if kind == "plain":
            return "ok"
        if kind == "ptr":
            dom = [0, 1]
            err = lambda x: x == 0
        elif kind == "zero-err":
            dom = [0, 1]
            err = lambda x: x == 0
        else:
            dom = sorted(vals) if vals else [-1, 0, 1, 2]
            err = lambda x: x < 0
        sel = [x for x in dom if holds(x)]
        if not sel:
            return "ok"
        if all(err(x) for x in sel):
            return "err"
        if not any(err(x) for x in sel):
            return "ok"
        return "mixed"

    # ---- transfer -------------------------------------------------------------
    def on_node(self, node, st):
        st = self.flags_stmt(node, st)
        e = node.e
        if e is None:
            return [st]
        for n in e.walk():
            if n.k == "CallExpr":
                c = callee(n)
                if c[0] == "fn" and (c[1] in SETTERS or (
                        c[1] in self.tu.funcs and c[1] != self.cfg.name and always_raises(self.tu, c[1]))):
                    st = sset(st, "x", "yes")
                elif c[0] == "fn" and c[1] == "PyErr_Clear":
                    st = sset(st, "x", "no")
        # v = call(...)
        if node.kind != "branch":
            for n in e.walk():
                lhs = rhs = None
                if n.k == "BinaryOperator" and n.v == "=":
                    lhs, rhs = path(n.kids[0]), strip(n.kids[1])
                elif n.k == "VarDecl" and n.kids:
                    lhs, rhs = n.n, strip(n.kids[-1])
                if lhs is None:
                    continue
                st = sdel(st, "c:" + lhs)
                if sget(st, "xv") == lhs:
                    st = sdel(st, "xv")
                dom = self._rhs_domain(rhs)
                if dom is not None:
                    kind, vals = dom
                    st = sset(st, "c:" + lhs, (kind, tuple(sorted(vals)) if vals else None))
        if node.kind == "return":
            self._check_return(node, st)
        return [st]

    def _check_return(self, node, st):
        if node.e is None:
            return
        v = self.flag_value_of(node.e, st)
        is_err = (self.rt.endswith("*") and v == 0) or \
                 (not self.rt.endswith("*") and isinstance(v, int) and v < 0 and self.rt in ("int", "long", "Py_ssize_t"))
        if not is_err:
            return
        self.returns_checked += 1
        x = sget(st, "x")
        if x != "yes":
            key = (node.id, x)
            if key not in self._seen:
                self._seen.add(key)
                self.reports.append((node, st, x))

    def on_edge(self, node, label, st):
        if node.unit is not None and node.unit[0] == "ACQ":
            if label == "F":
                return sset(st, "x", "yes")
            return st
        st2 = self.flags_edge(node, label, st)
        if st2 is None:
            return None
        st = st2
        if label not in ("T", "F") or node.e is None:
            return st
        want = label == "T"
        e = strip_parens(node.e)
        while e is not None and e.k == "UnaryOperator" and e.v == "!":
            want = not want
            e = strip_parens(e.kids[0])
        e0 = strip(e)
        if e0 is None:
            return st
        op, cst, tgt = "!=", 0, e0
        if e0.k == "BinaryOperator" and e0.v in ("==", "!=", "<", ">", "<=", ">="):
            a, b = strip(e0.kids[0]), strip(e0.kids[1])
            ca, cb = const_int(a), const_int(b)
            if cb is not None and ca is None:
                op, cst, tgt = e0.v, cb, a
            elif ca is not None and cb is None:
                op = {"<": ">", ">": "<", "<=": ">=", ">=": "<="}.get(e0.v, e0.v)
                cst, tgt = ca, b
            else:
                return st
        if tgt is not None and tgt.k == "BinaryOperator" and tgt.v == "=":
            rhs = strip(tgt.kids[1])
            lp = path(tgt.kids[0])
            if rhs is not None and rhs.k == "CallExpr":
                if lp is not None:
                    kind, vals = self._domain(rhs)
                    st = sset(st, "c:" + lp, (kind, tuple(sorted(vals)) if vals else None))
                tgt = rhs
            else:
                tgt = strip(tgt.kids[0])
        if tgt is None:
            return st
        dom = None
        if tgt.k == "CallExpr":
            c = callee(tgt)
            if c[0] == "fn" and c[1] in ("PyErr_Occurred",):
                # the test itself decides
                cls = self._edge_class("ptr", None, op, cst, want)
                return sset(st, "x", "yes" if cls == "ok" else "no")
            if c[0] == "fn" and c[1] in self.tu.funcs and c[1] != self.cfg.name and \
                    clears_when_true(self.tu, c[1]):
                # a predicate that forgives the pending exception: cleared iff it answers true
                truthy = self._edge_class("zero-err", None, op, cst, want) == "ok"
                return sset(st, "x", "no") if truthy else st
            dom = self._domain(tgt)
        else:
            p = path(tgt)
            if p is not None:
                d = sget(st, "c:" + p)
                if d is not None:
                    dom = (d[0], set(d[1]) if d[1] else None)
        if dom is None:
            return st
        cls = self._edge_class(dom[0], dom[1], op, cst, want)
        cur = sget(st, "x")
        tp = path(tgt) if tgt.k != "CallExpr" else None
        if tp is not None and dom[0] == "int" and dom[1]:
            # the values of the result that are consistent with this edge; none: infeasible
            keep = [x for x in dom[1] if {"==": x == cst, "!=": x != cst, "<": x < cst, ">": x > cst,
                                          "<=": x <= cst, ">=": x >= cst}[op] == want]
            if not keep:
                return None
            st = sset(st, "c:" + tp, ("int", tuple(sorted(keep))))
        if cls == "err":
            if getattr(self, "strict", False) and dom[0] == "int" and not dom[1]:
                return st      # an int API of unknown convention (memcmp, PyNumber_AsSsize_t): negative is not "failed"
            return sdel(sset(st, "x", "yes"), "xv")
        if cls == "ok" and cur == "maybe" and tp is not None and sget(st, "xv") == tp:
            # a later test of the same result excludes its error values
            return sdel(sset(st, "x", "no"), "xv")
        # "mixed" is meaningful only when the callee is known to have an
        # error value at all: a repository function whose return statements
        # are constants including a negative one, or a pointer result
        known = dom[0] == "ptr" or (dom[0] == "int" and dom[1] and min(dom[1]) < 0)
        if cls == "mixed" and known and cur != "yes":
            st = sset(st, "x", "maybe")
            if tp is not None:
                st = sset(st, "xv", tp)
            return st
        return st


def analyse(tu, scope=None):
    findings = []
    n = 0
    for name in tu.order:
        if scope is not None and name not in scope:
            continue
        if name.startswith("PyInit_") or name == "module_init":
            continue
        fn = tu.funcs[name]
        an = ErrExc(CFG(fn), tu)
        an.solve()
        n += an.returns_checked
        for node, st, x in an.reports:
            if x != "maybe":
                # paths on which nothing failed at all are dominated by
                # infeasible ones (NULL tests of stored keys) and by legal
                # NULL returns (tp_iternext at the end): not reported
                continue
            findings.append(dict(
                rule="ERR-NOEXC", function=name, file=node.where.split(":")[0], line=node.line,
                construct="%s with %s exception pending" % (text(node.e)[:30] if node.e is not None else "return",
                                                           "no" if x == "no" else "possibly no"),
                detail="this error return is reachable on a path on which no "
                       "exception has been set (the tested result also covers a "
                       "non-error value, or nothing failed): the caller sees "
                       "SystemError instead of RuntimeError / IndexError",
                path=witness_lines(an.witness(node, st))))
    return dict(findings=findings, n=n)


def tu_check(tu):
    return analyse(tu)


def extend(res, use_cache=True):
    from .. import engine
    out = engine.map_tus("sa.rules.errexc", "tu_check", use_cache=use_cache)
    n = 0
    for fam, r in sorted(out.items()):
        res.findings.extend(r["findings"], fam)
        n += r["n"]
        if r["n"] < 200:
            raise AnalysisError("ERR-NOEXC: only %d error returns found in %s" % (r["n"], fam))
    res.count("ERR-NOEXC", n)
    if "ERR-NOEXC" not in res.rules:
        res.rules.append("ERR-NOEXC")


# ---------------------------------------------------------------------------
# EXC-LEAK: the dual - no non-error return with an exception certainly pending.

def _accumulator(fn, name):
    """a local whose only definitions are constants and compound assignments /
    increments (a counter): its value is never a callee's error sentinel"""
    defs = 0
    for n in fn.walk():
        if n.k == "VarDecl" and n.n == name:
            init = [c for c in n.kids if c.k != "Absent"]
            if init and const_int(init[-1]) is None:
                return False
            defs += 1
        elif n.k == "BinaryOperator" and n.v == "=" and path(n.kids[0]) == name:
            if const_int(n.kids[1]) is None:
                return False
            defs += 1
        elif n.k == "ParmVarDecl" and n.n == name:
            return False
    return defs > 0


def _flag_param_states(cfg, fn):
    """{int* parameter: {node id: set of constants last stored through it on
    the paths reaching the node ('?' = none / not a constant)}} - a forward
    may-analysis over the CFG; used to recognise the success-flag
    out-parameter convention (`*ok = 0` on failure, `*ok = 1` on success)."""
    params = [p.n for p in fn.kids if p.k == "ParmVarDecl" and (p.t or "").replace(" ", "") == "int*"]
    out = {}
    for P in params:
        def stored(e):
            if e is None:
                return None
            val = None
            for n in e.walk():
                if n.k == "BinaryOperator" and n.v == "=":
                    l = strip(n.kids[0])
                    if l is not None and l.k == "UnaryOperator" and l.v == "*":
                        b = strip(l.kids[0])
                        if b is not None and b.k == "DeclRefExpr" and b.n == P:
                            c = const_int(n.kids[1])
                            val = c if c is not None else "?"
            return val
        IN = {cfg.entry.id: frozenset(["?"])}
        work = [cfg.entry]
        nodes = {cfg.entry.id: cfg.entry}
        while work:
            nd = work.pop()
            cur = IN[nd.id]
            v = stored(nd.e) if nd.kind != "branch" or nd.e is not None else None
            o = frozenset([v]) if v is not None else cur
            for _, s2 in nd.succ:
                nodes[s2.id] = s2
                old = IN.get(s2.id)
                new = o if old is None else old | o
                if new != old:
                    IN[s2.id] = new
                    work.append(s2)
        res = {}
        for nid, vals in IN.items():
            nd = nodes[nid]
            v = stored(nd.e)
            res[nid] = frozenset([v]) if v is not None else vals
        out[P] = res
    return out


def analyse_leak(tu):
    """Reported: a return, reached with an exception certainly pending (set on
    this path by a failing API / activation / PyErr_Set*), of (a) a constant
    that is not the function's error value, (b) the result of a further call
    (made with the exception pending), (c) a counter.  Functions following the
    boolean convention (values 0/1, 0 = failure, on every such return) are the
    accepted idiom."""
    findings = []
    n = 0
    for name in tu.order:
        if name.startswith("PyInit_") or name == "module_init":
            continue
        fn = tu.funcs[name]
        rt = (fn.t or "").split("(")[0].strip()
        if rt == "void" or tu.body(name) is None:
            continue
        an = ErrExc(CFG(fn), tu)
        an.strict = True
        try:
            an.solve()
        except AnalysisError:
            continue
        hits = []
        boolean = True
        for r in an.cfg.returns():
            if r.e is None:
                continue
            for st in an.IN.get(r.id, ()):
                st2 = an.flags_stmt(r, st)
                n += 1
                if sget(st2, "x") != "yes":
                    continue
                v = an.flag_value_of(r.e, st2)
                is_err = (rt.endswith("*") and v == 0) or (isinstance(v, int) and v < 0)
                if is_err:
                    boolean = boolean and rt.endswith("*")
                    continue
                e0 = strip(r.e)
                kind = None
                if e0 is not None and e0.k == "DeclRefExpr" and _accumulator(fn, e0.n) and not isinstance(v, int):
                    kind = "the counter %s" % e0.n
                    boolean = False
                elif isinstance(v, int) or v == "NN":
                    kind = "%s (= %s, not an error value)" % (text(r.e)[:30], "non-NULL" if v == "NN" else v)
                    if v != 0:
                        boolean = False
                elif e0 is not None and e0.k == "CallExpr":
                    kind = "the result of a further call, %s" % text(e0)[:40]
                    boolean = False
                elif e0 is not None and e0.k == "DeclRefExpr" and _accumulator(fn, e0.n):
                    kind = "the counter %s" % e0.n
                    boolean = False
                if kind:
                    hits.append((r, st2, kind))
                    break
        vals = return_values(tu, name)
        if hits and boolean and not rt.endswith("*") and vals is not None and vals <= {0, 1}:
            continue        # 0 = failure, 1 = success
        if hits:
            # success-flag out-parameter: every return with an exception pending
            # is made with *flag == 0, every other return with *flag != 0
            flagged = False
            for P, states in _flag_param_states(an.cfg, fn).items():
                ok = True
                for r in an.cfg.returns():
                    pend = set(sget(an.flags_stmt(r, st), "x") for st in an.IN.get(r.id, ()))
                    fv = states.get(r.id, frozenset(["?"]))
                    if not pend:
                        continue
                    if pend == {"yes"}:
                        ok = ok and fv == frozenset([0])
                    elif "yes" in pend:
                        ok = False
                    else:
                        ok = ok and "?" not in fv and 0 not in fv
                if ok:
                    flagged = True
            if flagged:
                continue
        for r, st2, kind in hits:
            findings.append(dict(
                rule="EXC-LEAK", function=name, file=r.where.split(":")[0], line=r.line,
                construct="returns %s with an exception pending" % kind,
                detail="on this path an API / activation has failed and its exception is "
                       "still set, yet the function returns a value that is not its error "
                       "value: the interpreter raises SystemError('returned a result with an "
                       "exception set') in place of the original exception (the Python "
                       "implementation raises the original one)",
                path=witness_lines(an.witness(r, st2))))
    return dict(findings=findings, n=n)
