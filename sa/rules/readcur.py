"""Read dependencies (C08), C side.

READCUR-MUST   every descent of a write into a child of a stored interior node
               (a call of _BTree_set/_bucket_set on X's child) is dominated by
               cPersistenceCAPI->readCurrent(X).
READCUR-NEVER  no read-only entry point reaches a readCurrent call.
"""
from ..cir import strip, callee, path, text
from ..cfg import CFG
from ..common import AnalysisError
from .. import callgraph
from . import pins

DESCENTS = ("_BTree_set", "_bucket_set")


def _child_owner(fn, arg):
    """Variable that owns the child expression `arg` (X in X->data[i].child,
    or through an interior pointer d = X->data + i)."""
    a = strip(arg)
    if a is None or a.k != "MemberExpr" or a.n != "child":
        return None
    b = strip(a.kids[0])
    # d->child
    while b is not None and b.k == "ArraySubscriptExpr":
        b = strip(b.kids[0])
    if b is not None and b.k == "MemberExpr" and b.n == "data":
        return path(b.kids[0])
    if b is not None and b.k == "DeclRefExpr":
        # interior pointer: find its (unique) definition d = X->data + ...
        owners = set()
        for n in fn.walk():
            rhs = None
            if n.k == "BinaryOperator" and n.v == "=" and path(n.kids[0]) == b.n:
                rhs = n.kids[1]
            elif n.k == "VarDecl" and n.n == b.n and n.kids:
                rhs = n.kids[-1]
            if rhs is None:
                continue
            for m in rhs.walk():
                if m.k == "MemberExpr" and m.n == "data":
                    owners.add(path(m.kids[0]))
        if len(owners) == 1:
            return owners.pop()
    return None


def declaring_helpers(tu):
    """{function: parameter index} - helpers that declare their (already
    activated) parameter as read on every path to a non-error return: the search
    step of a write factored out together with its readCurrent"""
    from ..cir import const_int
    out = {}
    entries = pins.entry_points(tu)
    for name in tu.order:
        fn = tu.funcs[name]
        if name in entries or tu.body(name) is None:
            continue
        rcs = [n for n in fn.walk() if n.k == "CallExpr" and callee(n) == ("capi", "readCurrent")]
        if not rcs:
            continue
        params = [k.n for k in fn.kids if k.k == "ParmVarDecl"]
        cfg = CFG(fn)
        dom = cfg.dominators()
        for i, pn in enumerate(params):
            nodes = [nd for nd in cfg.live_nodes() if nd.e is not None and any(
                x.k == "CallExpr" and callee(x) == ("capi", "readCurrent") and path(x.kids[1]) == pn
                for x in nd.e.walk())]
            if not nodes:
                continue
            if any(nd.unit and nd.unit[0] == "ACQ" and path(nd.unit[1]) == pn for nd in cfg.live_nodes()):
                continue          # activates the node itself: an ordinary function, judged on its own
            ok = True
            for r in cfg.returns():
                if r.e is not None:
                    c = const_int(r.e)
                    if c is not None and c <= 0:
                        continue                  # NULL / -1 / 0: the failure answers
                if not any(nd.id in dom[r.id] for nd in nodes):
                    ok = False
            if ok:
                out[name] = i
    return out


def analyse_tu(tu):
    findings = []
    stats = {"readcur_sites": 0, "descents": 0, "readers": 0, "writers": 0}
    g = callgraph.build(tu)
    helpers = declaring_helpers(tu)
    # ---- MUST ---------------------------------------------------------------
    for name in tu.order:
        fn = tu.funcs[name]
        descents = []
        for n in fn.walk():
            if n.k == "CallExpr":
                c = callee(n)
                if c[0] == "fn" and c[1] in DESCENTS and len(n.kids) > 1:
                    owner = _child_owner(fn, n.kids[1])
                    if owner is not None:
                        descents.append((n, c[1], owner))
        has_rc = any(n.k == "CallExpr" and callee(n) == ("capi", "readCurrent")
                     for n in fn.walk())
        if not descents and not has_rc:
            continue
        cfg = CFG(fn)
        dom = cfg.dominators()
        rc_nodes = []
        for nd in cfg.live_nodes():
            if nd.e is None:
                continue
            for x in nd.e.walk():
                if x.k == "CallExpr" and callee(x) == ("capi", "readCurrent"):
                    rc_nodes.append((nd, path(x.kids[1])))
                    stats["readcur_sites"] += 1
                elif x.k == "CallExpr" and callee(x)[0] == "fn" and callee(x)[1] in helpers and \
                        callee(x)[1] != name and len(x.kids) > 1 + helpers[callee(x)[1]]:
                    # a helper that declares the node it is handed
                    rc_nodes.append((nd, path(x.kids[1 + helpers[callee(x)[1]]])))
        # the declaration is made on the *activated* node: readCurrent of a
        # ghost declares nothing (cPersistence's readCurrent looks at the
        # object's serial, which a ghost does not have yet)
        acq = [(nd, path(nd.unit[1])) for nd in cfg.live_nodes() if nd.unit and nd.unit[0] == "ACQ"]
        own_params = [k.n for k in fn.kids if k.k == "ParmVarDecl"]
        for r, rp in rc_nodes:
            stats["readcur_active"] = stats.get("readcur_active", 0) + 1
            if name in helpers and rp == own_params[helpers[name]]:
                continue      # the caller hands the node over activated (checked at the call site)
            if not any(a.id in dom[r.id] and a.id != r.id and ap == rp for a, ap in acq):
                findings.append(dict(
                    rule="READCUR-MUST", function=name, file=r.e.f, line=r.e.l,
                    construct="readCurrent(%s) before %s is activated" % (rp, rp),
                    detail="no activation (PER_USE / PER_USE_OR_RETURN) of %s "
                           "dominates the readCurrent call: when the node is "
                           "still a ghost the call declares nothing and the "
                           "write that follows is not protected" % rp, path=[]))
        for call, cname, owner in descents:
            stats["descents"] += 1
            holder = None
            for nd in cfg.live_nodes():
                if nd.e is not None and any(x is call for x in nd.e.walk()):
                    holder = nd
            if holder is None:
                continue      # unreachable code
            ok = any(r.id in dom[holder.id] and r.id != holder.id and rp == owner
                     for r, rp in rc_nodes)
            if not ok:
                findings.append(dict(
                    rule="READCUR-MUST", function=name, file=call.f, line=call.l,
                    construct="%s(%s) without readCurrent(%s)" % (
                        cname, text(call.kids[1])[:40], owner),
                    detail="the write descends into a child of %s but no "
                           "readCurrent(%s) is executed on every path before "
                           "it: the interior node is not declared as a read "
                           "dependency of the transaction" % (owner, owner),
                    path=[]))
    # ---- NEVER --------------------------------------------------------------
    entries = pins.entry_points(tu)
    for e in sorted(entries):
        r = callgraph.reach(g, e)
        writer = "capi:changed" in r
        if writer:
            stats["writers"] += 1
            continue
        stats["readers"] += 1
        if "capi:readCurrent" in r:
            p = callgraph.path_to(g, e, "capi:readCurrent")
            findings.append(dict(
                rule="READCUR-NEVER", function=e, file=tu.funcs[e].f,
                line=tu.funcs[e].l,
                construct="read-only entry reaches readCurrent via %s" % " > ".join(p or []),
                detail="%s never modifies a node but declares a read "
                       "dependency (%s): pure reads would then conflict with "
                       "concurrent writers" % (e, " > ".join(p or [])),
                path=[]))
    return dict(findings=findings, stats=stats)
