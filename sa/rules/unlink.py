"""UNLINK-STATUS (C03 / C01): the delete path's 'first bucket went away'
status is consumed exactly where the predecessor leaf is relinked.

C       _BTree_set: a return of status 2 ("caller must unlink") is never
        reached on a path on which this frame already called
        BTree_deleteNextBucket / Bucket_deleteNextBucket.
Python  _Tree._del: `removed_first_bucket` is never true at the return on a
        path on which a `._deleteNextBucket()` call was made.
Otherwise an ancestor unlinks a second, live leaf (keys vanish from
iteration).
"""
import ast

from ..cir import strip, path, callee, text, const_int
from ..cfg import CFG
from ..flow import Analysis, sget, sset, witness_lines
from ..common import AnalysisError, SRC
from .. import pyfront

REL = SRC + "/_base.py"
UNLINKERS = ("BTree_deleteNextBucket", "Bucket_deleteNextBucket")


class UnlinkAnalysis(Analysis):
    def __init__(self, cfg, tu):
        Analysis.__init__(self, cfg, tu)
        self.reports = []
        self.sites = 0
        self._ids = set()

    def extra_uses(self, node):
        out = set()
        if node.kind == "return" and node.e is not None:
            r0 = strip(node.e)
            if r0 is not None and r0.k == "DeclRefExpr" and self.is_flag_var(r0.n):
                out.add(r0.n)
        return out

    def on_node(self, node, st):
        if node.e is None:
            return [st]
        # may-be-2 tracking of variables assigned from the recursive call
        for n in node.e.walk():
            if n.k == "BinaryOperator" and n.v == "=":
                l = strip(n.kids[0])
                r = strip(n.kids[1])
                if l is not None and l.k == "DeclRefExpr":
                    if r is not None and r.k == "CallExpr" and callee(r) == ("fn", self.cfg.name):
                        st = sset(st, "s2:" + l.n, "maybe")
                    elif const_int(n.kids[1]) is not None:
                        st = sset(st, "s2:" + l.n, "yes" if const_int(n.kids[1]) == 2 else None)
                    elif r is not None and r.k == "CallExpr":
                        st = sset(st, "s2:" + l.n, None)
        for n in node.e.walk():
            if n.k == "CallExpr":
                c = callee(n)
                if c[0] == "fn" and c[1] in UNLINKERS:
                    if node.id not in self._ids:
                        self._ids.add(node.id)
                        self.sites += 1
                    st = sset(st, "u", node.where)
        return [st]

    def delete_only_param(self):
        """a parameter P such that every `X = 2` of this function sits behind
        the false edge of a test of P, and the recursive call passes P on: by
        induction status 2 arises only when P is NULL (deletes)"""
        cfg = self.cfg
        params = [k.n for k in cfg.fn.kids if k.k == "ParmVarDecl" and (k.t or "").strip().endswith("*")]
        live = cfg.live_nodes()
        twos = [nd for nd in live if nd.e is not None and nd.kind != "branch" and any(
            n.k == "BinaryOperator" and n.v == "=" and const_int(n.kids[1]) == 2 and
            strip(n.kids[0]) is not None and strip(n.kids[0]).k == "DeclRefExpr" for n in nd.e.walk())]
        if not twos:
            return None
        dom = cfg.dominators()

        def reach(start, barrier):
            seen, work = set(), [start]
            while work:
                x = work.pop()
                if x.id in seen or x.id == barrier:
                    continue
                seen.add(x.id)
                work.extend(s2 for _, s2 in x.succ)
            return seen
        for pn in params:
            # passed on unchanged in every recursive call
            calls = [n for n in cfg.fn.walk() if n.k == "CallExpr" and callee(n) == ("fn", cfg.name)]
            idx = [k.n for k in cfg.fn.kids if k.k == "ParmVarDecl"].index(pn)
            if not calls or not all(len(c.kids) > 1 + idx and path(c.kids[1 + idx]) == pn for c in calls):
                continue
            ok = True
            for nd in twos:
                guarded = False
                for g in live:
                    if g.kind != "branch" or g.e is None or g.id not in dom.get(nd.id, ()):
                        continue
                    e = strip(g.e)
                    neg = False
                    while e is not None and e.k == "UnaryOperator" and e.v == "!":
                        neg = not neg
                        e = strip(e.kids[0])
                    if e is None or e.k != "DeclRefExpr" or e.n != pn:
                        continue
                    nonnull = [s2 for l, s2 in g.succ if l == ("F" if neg else "T")]
                    if nonnull and nd.id not in reach(nonnull[0], g.id):
                        guarded = True
                        break
                if not guarded:
                    ok = False
                    break
            if ok:
                return pn
        return None

    def index_vars(self):
        """the variable(s) that select the child: `d = self->data + X`"""
        out = set()
        for n in self.cfg.fn.walk():
            rhs = None
            if n.k == "BinaryOperator" and n.v == "=":
                rhs = strip(n.kids[1])
            elif n.k == "VarDecl" and n.kids and n.kids[-1].k != "Absent":
                rhs = strip(n.kids[-1])
            if rhs is not None and rhs.k == "BinaryOperator" and rhs.v == "+":
                a, b = strip(rhs.kids[0]), strip(rhs.kids[1])
                if a is not None and a.k == "MemberExpr" and a.n == "data" and b is not None and b.k == "DeclRefExpr":
                    out.add(b.n)
        return out

    def on_edge(self, node, label, st):
        st = Analysis.on_edge(self, node, label, st) if hasattr(Analysis, "on_edge") else st
        if st is None or label not in ("T", "F") or node.e is None:
            return st
        if not hasattr(self, "_idx"):
            self._idx = self.index_vars()
        want = label == "T"
        e = strip(node.e)
        while e is not None and e.k == "UnaryOperator" and e.v == "!":
            want = not want
            e = strip(e.kids[0])
        if e is None:
            return st
        var = zero = None
        if e.k == "DeclRefExpr" and e.n in self._idx:
            var, zero = e.n, not want
        elif e.k == "BinaryOperator" and e.v in ("==", "!=", ">") and const_int(e.kids[1]) == 0:
            a = strip(e.kids[0])
            if a is not None and a.k == "DeclRefExpr" and a.n in self._idx:
                var = a.n
                zero = want if e.v == "==" else not want
        if var is not None:
            st = sset(st, "z:" + var, 0 if zero else "NZ")
        if not hasattr(self, "_delparam"):
            self._delparam = self.delete_only_param()
        if e.k == "DeclRefExpr" and e.n == self._delparam and want:
            # not a delete: the status cannot be 2 on this path
            st = frozenset((k, v) for k, v in st if not k.startswith("s2:"))
        if e.k == "BinaryOperator" and e.v in ("==", "!=") and const_int(e.kids[1]) == 2:
            a = strip(e.kids[0])
            if a is not None and a.k == "DeclRefExpr" and sget(st, "s2:" + a.n) is not None:
                is2 = want if e.v == "==" else not want
                st = sset(st, "s2:" + a.n, "yes" if is2 else None)
        return st

    def check_exits(self):
        if not hasattr(self, "_idx"):
            self._idx = self.index_vars()
        self.first_reports = []
        for n in self.cfg.returns():
            if n.e is None:
                continue
            for st in self.IN.get(n.id, ()):
                v = self.flag_value_of(n.e, st)
                u = sget(st, "u")
                if u is not None and v == 2:
                    self.reports.append((n, st, u))
                r0 = strip(n.e)
                may2 = v == 2 or (v is None and r0 is not None and r0.k == "DeclRefExpr" and
                                  sget(st, "s2:" + r0.n) in ("maybe", "yes"))
                if may2 and self._idx and not any(sget(st, "z:" + x) == 0 for x in self._idx):
                    self.first_reports.append((n, st))


def c_rules(tu):
    fn = tu.func("_BTree_set")
    an = UnlinkAnalysis(CFG(fn), tu)
    an.solve()
    an.check_exits()
    findings = []
    seen = set()
    for n, st, u in an.reports:
        if u in seen:
            continue
        seen.add(u)
        findings.append(dict(
            rule="UNLINK-STATUS", function="_BTree_set", file=n.where.split(":")[0], line=n.line,
            construct="returns status 2 after unlinking at %s" % u.split("/")[-1].split(":")[0],
            detail="_BTree_set relinks the predecessor leaf (at %s) and still "
                   "reports status 2 ('first bucket went away') to its "
                   "caller: an ancestor will unlink a second, live leaf and "
                   "its keys vanish from iteration" % u,
            path=witness_lines(an.witness(n, st))))
    if not an._idx:
        raise AnalysisError("anchor vanished: child selection `self->data + index` in _BTree_set")
    if an.first_reports:
        n, st = an.first_reports[0]
        findings.append(dict(
            rule="UNLINK-STATUS", function="_BTree_set", file=n.where.split(":")[0], line=n.line,
            construct="returns status 2 without having established that the child is the first child",
            detail="status 2 tells the caller that *its* first leaf under this node went away; that "
                   "is only true when the child that lost its first leaf is this node's child 0 "
                   "(index %s tested zero). On this path the index was not tested: for any other "
                   "child the predecessor leaf must be relinked here, and the caller - told 2 - "
                   "unlinks a wrong leaf or none" % "/".join(sorted(an._idx)),
            path=witness_lines(an.witness(n, st))))
    if an.sites < 2:
        raise AnalysisError("anchor vanished: unlink calls in _BTree_set (%d)" % an.sites)
    # status assignments: facts for the evidence
    facts = {"unlink_sites": an.sites,
             "status_assignments": sorted(set(
                 "%s" % const_int(x.kids[1]) for x in fn.walk()
                 if x.k == "BinaryOperator" and x.v == "=" and path(x.kids[0]) == "status"
                 and const_int(x.kids[1]) is not None))}
    return dict(findings=findings, n=an.sites, facts=facts)


# ---------------------------------------------------------------------------

class _PyPaths(object):
    """Enumerates abstract paths of _Tree._del: env of booleans + unlink flag."""

    def __init__(self, flagvar):
        self.flagvar = flagvar
        self.exits = []

    def truth(self, test, env):
        """(value, what the true branch implies, what the false branch implies);
        value True / False / None (unknown); implications are lists of (key, bool)"""
        if isinstance(test, ast.Name):
            return env.get(test.id), [(test.id, True)], [(test.id, False)]
        if isinstance(test, ast.UnaryOp) and isinstance(test.op, ast.Not):
            t, rt, rf = self.truth(test.operand, env)
            return (None if t is None else not t), rf, rt
        if isinstance(test, ast.BoolOp):
            parts = [self.truth(v, env) for v in test.values]
            vals = [p[0] for p in parts]
            is_and = isinstance(test.op, ast.And)
            if is_and:
                val = False if any(v is False for v in vals) else (True if all(v is True for v in vals) else None)
            else:
                val = True if any(v is True for v in vals) else (False if all(v is False for v in vals) else None)
            all_side = [r for p in parts for r in (p[1] if is_and else p[2])]   # and-true / or-false: every operand
            unknown = [p for p in parts if p[0] is None]
            one_side = []
            if len(unknown) == 1 and all((p[0] is True) if is_and else (p[0] is False) for p in parts if p[0] is not None):
                one_side = unknown[0][2] if is_and else unknown[0][1]          # the only open operand decides
            return (val, all_side, one_side) if is_and else (val, one_side, all_side)
        key = pyfront.unparse(test)
        return env.get(key), [(key, True)], [(key, False)]

    def block(self, body, states):
        for st in body:
            states = self.stmt(st, states)
            if not states:
                break
        return states

    def stmt(self, st, states):
        out = []
        if isinstance(st, ast.If):
            for env, un in states:
                t, rt, rf = self.truth(st.test, env)
                for branch, body in ((True, st.body), (False, st.orelse)):
                    if t is not None and t != branch:
                        continue
                    e2 = dict(env)
                    for k, v in (rt if branch else rf):
                        e2[k] = v
                    if isinstance(st.test, (ast.BoolOp, ast.UnaryOp)):
                        e2["__facts__"] = tuple(e2.get("__facts__", ())) + ((st.test, branch),)
                    # compound conditions seen earlier may now decide one of their operands
                    for _ in range(3):
                        for ftest, fval in e2.get("__facts__", ()):
                            _t, frt, frf = self.truth(ftest, e2)
                            for k, v in (frt if fval else frf):
                                e2[k] = v
                    out.extend(self.block(body, [(e2, un)]))
            return out
        if isinstance(st, ast.Return):
            for env, un in states:
                self.exits.append((env, un, st))
            return []
        if isinstance(st, ast.Raise):
            return []
        for env, un in states:
            e2 = dict(env)
            un2 = un
            for n in ast.walk(st):
                if isinstance(n, ast.Call) and isinstance(n.func, ast.Attribute) and \
                        n.func.attr == "_deleteNextBucket":
                    un2 = n.lineno
            if isinstance(st, ast.Assign):
                for t in st.targets:
                    for tt in (t.elts if isinstance(t, ast.Tuple) else [t]):
                        if isinstance(tt, ast.Name):
                            if isinstance(st.value, ast.Constant) and isinstance(st.value.value, bool):
                                e2[tt.id] = st.value.value
                            else:
                                e2.pop(tt.id, None)
                            # expressions mentioning the name become unknown
                            for k in [k for k in e2 if k != tt.id and k != "__facts__" and tt.id in k.split()]:
                                e2.pop(k)
                            e2["__facts__"] = tuple(
                                (ft, fv) for ft, fv in e2.get("__facts__", ())
                                if not any(isinstance(x, ast.Name) and x.id == tt.id for x in ast.walk(ft)))
            out.append((e2, un2))
        return out


def py_rules(res):
    tree = pyfront.base_py()
    t = pyfront.class_members(pyfront.classes(tree)["_Tree"])
    fn = t.get("_del")
    if not isinstance(fn, ast.FunctionDef):
        raise AnalysisError("anchor vanished: _Tree._del")
    # the flag: first element of the returned tuple
    rets = [r for r in ast.walk(fn) if isinstance(r, ast.Return) and isinstance(r.value, ast.Tuple)]
    if not rets or not isinstance(rets[-1].value.elts[0], ast.Name):
        raise AnalysisError("unrecognised idiom: return of _Tree._del")
    flag = rets[-1].value.elts[0].id
    p = _PyPaths(flag)
    p.block(fn.body, [({}, None)])
    sites = sum(1 for n in ast.walk(fn) if isinstance(n, ast.Call) and
                isinstance(n.func, ast.Attribute) and n.func.attr == "_deleteNextBucket")
    if sites < 2:
        raise AnalysisError("anchor vanished: _deleteNextBucket calls in _Tree._del")
    res.count("PY-UNLINK-STATUS", sites)
    seen = set()
    for env, un, ret in p.exits:
        if un is not None and env.get(flag) is not False and un not in seen:
            seen.add(un)
            res.findings.add(dict(
                rule="PY-UNLINK-STATUS", function="_Tree._del", file=REL, line=un,
                construct="returns %s possibly true after _deleteNextBucket()" % flag,
                detail="_Tree._del relinks the predecessor leaf (line %d) and "
                       "can still return %s = True: an ancestor will unlink a "
                       "second, live leaf and its keys vanish from iteration "
                       "and len()" % (un, flag), path=[]))
