"""USE-AFTER-RELEASE (C16): a local that only borrows a container field's
reference is not touched after that reference has been released.

`P = X->field` makes P a borrowed alias of the reference the field owns.  A
`Py_DECREF(P)` with no `Py_INCREF(P)` before it on the path gives up the
field's reference (the field is re-pointed next to it); if that was the last
one - the leaf was unlinked from its tree while a parked iterator still held
it - the object is freed, and every later use of P in the function (a field
read, the release of its pin: PER_UNUSE(P) writes P->state) touches freed
memory.  Other owners usually keep the object alive, which is why this does
not show in ordinary runs.

Path rule over the CFG.  Per local: borrowed-from-field (set by `P = X->f`,
cleared by any other assignment), the number of own INCREFs on the path, and
released (set by a DECREF / XDECREF / CLEAR of P in the state borrowed, no own
INCREF).  Reported: a read of P in the released state.  Assigning P ends the
state.
"""
from ..cir import strip, path, callee, text
from ..cfg import CFG
from ..flow import Analysis, sget, sset, sdel, witness_lines

INC = ("Py_INCREF", "Py_XINCREF", "_Py_INCREF", "_Py_XINCREF", "Py_NewRef", "_Py_NewRef", "Py_XNewRef", "_Py_XNewRef")
DEC = ("Py_DECREF", "Py_XDECREF", "_Py_DECREF", "_Py_XDECREF")


def _arg_var(call):
    if len(call.kids) < 2:
        return None
    a = strip(call.kids[1])
    if a is not None and a.k == "DeclRefExpr" and a.rk in ("VarDecl", "ParmVarDecl"):
        return a.n
    return None


class Dangling(Analysis):
    def __init__(self, cfg, tu):
        Analysis.__init__(self, cfg, tu)
        self.reports = []
        self._seen = set()
        self.sites = 0
        self._ids = set()

    def on_node(self, node, st):
        e = node.e
        if e is None:
            return [st]
        releasing = set()
        assigned = set()
        for n in e.walk():
            if n.k == "CallExpr":
                c = callee(n)
                if c[0] == "fn" and c[1] in DEC:
                    v = _arg_var(n)
                    if v:
                        releasing.add(v)
            if n.k == "BinaryOperator" and n.v == "=":
                l = strip(n.kids[0])
                if l is not None and l.k == "DeclRefExpr":
                    assigned.add(l.n)
        # uses of released locals
        for n in e.walk():
            if n.k == "DeclRefExpr" and n.n not in releasing and n.n not in assigned:
                rel = sget(st, "rel:" + n.n)
                if rel is not None and (node.id, n.n) not in self._seen:
                    self._seen.add((node.id, n.n))
                    self.reports.append((node, st, n.n, rel))
        for n in e.walk():
            lhs = rhs = None
            if n.k == "BinaryOperator" and n.v == "=":
                l = strip(n.kids[0])
                if l is not None and l.k == "DeclRefExpr":
                    lhs, rhs = l.n, strip(n.kids[1])
            elif n.k == "VarDecl" and n.kids and n.kids[-1].k != "Absent":
                lhs, rhs = n.n, strip(n.kids[-1])
            if lhs is not None:
                st = sdel(sdel(sdel(st, "fl:" + lhs), "inc:" + lhs), "rel:" + lhs)
                if rhs is not None and rhs.k == "MemberExpr" and "*" in (rhs.t or ""):
                    st = sset(st, "fl:" + lhs, text(rhs)[:40])
            if n.k == "CallExpr":
                c = callee(n)
                if c[0] != "fn":
                    continue
                v = _arg_var(n)
                if v is None:
                    continue
                if c[1] in INC:
                    st = sset(st, "inc:" + v, min(2, (sget(st, "inc:" + v) or 0) + 1))
                elif c[1] in DEC:
                    k = sget(st, "inc:" + v) or 0
                    if k > 0:
                        st = sset(st, "inc:" + v, k - 1)
                    elif sget(st, "fl:" + v) is not None:
                        if node.id not in self._ids:
                            self._ids.add(node.id)
                            self.sites += 1
                        st = sset(st, "rel:" + v, "%s released at %s" % (sget(st, "fl:" + v), node.where))
        return [st]


def analyse_tu(tu):
    findings = []
    sites = 0
    for name in tu.order:
        fn = tu.funcs[name]
        if tu.body(name) is None or not any(
                n.k == "CallExpr" and callee(n)[0] == "fn" and callee(n)[1] in DEC for n in fn.walk()):
            continue
        an = Dangling(CFG(fn), tu)
        an.solve()
        sites += an.sites
        seen = set()
        for node, st, var, rel in sorted(an.reports, key=lambda r: r[0].line):
            if var in seen:
                continue
            seen.add(var)
            findings.append(dict(
                rule="USE-AFTER-RELEASE", function=name, file=node.where.split(":")[0], line=node.line,
                construct="%s is used in %s after the reference it borrowed (%s) was released" % (
                    var, name, rel.split(" released")[0]),
                detail="%s: the local only borrowed the field's reference; after the release nothing in "
                       "this function keeps the object alive, and `%s` still reads or writes it (freed "
                       "memory when the field's reference was the last one, e.g. a leaf unlinked from its "
                       "tree while an iterator was parked on it)" % (rel, text(node.e)[:50]),
                path=witness_lines(an.witness(node, st))))
    return dict(findings=findings, stats={"borrowed_releases": sites})
