"""ITER-ADVANCE (C02): where BTreeIter_next parks the finger after handing out
the entry at (leaf, offset).

The function is interpreted path by path with the machinery of SEEK-NET
(seeknet.Exec: polynomial values, interval bounds on linear forms, no solver).
On every path that hands out an entry and does not end the iteration the new
finger must be

    (same leaf, offset + 1)   and then  offset + 1 <  len(leaf)  on that path
    (next leaf, 0)            and then  offset + 1 >= len(leaf)  on that path

- an advance that stays in the leaf with offset + 1 == len makes the next call
raise "the bucket being iterated changed size" at the end of every leaf; one
that leaves the leaf early skips entries.  The end of the iteration (finger
cleared) is allowed only under a test against the slice's last position.
"""
from ..common import AnalysisError
from .length import p_add, p_const, p_var, show
from . import seeknet


class _Exec(seeknet.Exec):
    def member(self, b, name, st):
        if b == ("iter",):
            if name == "pitems":
                return ("self",)
            return ("unk",)
        return seeknet.Exec.member(self, b, name, st)

    def call(self, e, st):
        from ..cir import callee
        c = callee(e)
        name = c[1] if c and c[0] == "fn" else None
        if name in self.tu.funcs:
            try:
                body = self.tu.body(name)
            except AnalysisError:
                body = None
            if body is not None and any(x.k in ("SwitchStmt", "ForStmt") for x in body.walk()):
                return [(("unk",), st)]          # builds the entry: not part of the finger arithmetic
        return seeknet.Exec.call(self, e, st)

    def run_iter(self):
        tu = self.tu
        body = tu.body(self.entry)
        params = tu.params(self.entry)
        if not params:
            raise AnalysisError("anchor vanished: BTreeIter_next(bi, args)")
        st = seeknet.State()
        st.frames[0][params[0].n] = ("iter",)
        for p_ in params[1:]:
            st.frames[0][p_.n] = ("unk",)
        out = []
        for s1, ctl in self.block(list(body.kids), st):
            if ctl is None:
                raise AnalysisError("iter-advance: BTreeIter_next falls off its end")
            if ctl[0] == "goto":
                # labels at the top level of the body
                idx = [i for i, s in enumerate(body.kids) if s.k == "LabelStmt" and (s.n or s.v) == ctl[1]]
                if not idx:
                    raise AnalysisError("iter-advance: goto %s" % ctl[1])
                for s2, c2 in self.block(list(body.kids[idx[0]:]), s1):
                    if c2 is None or c2[0] != "ret":
                        raise AnalysisError("iter-advance: control flow after label %s" % ctl[1])
                    out.append((s2, c2[1]))
            elif ctl[0] == "ret":
                out.append((s1, ctl[1]))
            else:
                raise AnalysisError("iter-advance: %s outside a loop" % ctl[0])
        return out


def _bound(st, p):
    """(lo, hi) the path knows for polynomial p (None = unbounded)"""
    c0 = seeknet._const(p)
    if c0 is not None:
        return c0, c0
    key, sign, c = seeknet._norm(p)
    lo, hi = st.bounds.get(key, [None, None])
    if sign > 0:
        return (None if lo is None else lo + c), (None if hi is None else hi + c)
    return (None if hi is None else -hi + c), (None if lo is None else -lo + c)


def analyse(tu):
    ex = _Exec(tu, entry="BTreeIter_next")
    results = ex.run_iter()
    findings = []
    seen = set()
    n = 0
    kinds = set()
    O, L0 = p_var("O"), p_var("L0")
    room = p_add(p_add(O, p_const(1)), L0, -1)          # offset + 1 - len(leaf)
    for st, rv in results:
        if rv[0] == "null" or (rv[0] == "aff" and seeknet._const(rv[1]) == 0):
            continue                         # NULL: termination or error
        if "currentoffset" not in st.fields and "currentbucket" not in st.fields:
            continue
        n += 1
        off = st.fields.get("currentoffset", ("aff", O))
        leaf = st.fields.get("currentbucket", ("leaf", 0))
        bad = None
        if leaf[0] == "null" or (leaf[0] == "aff" and seeknet._const(leaf[1]) == 0):
            kinds.add("end")
            # the finger is cleared: only under a test against the slice's end
            if not any(k[0] == "ptr-eq" and any(x == ("fld", "lastbucket") for x in k[1:]) and v
                       for k, v in st.facts.items()):
                bad = "ends the iteration on a path that did not find the finger in the last leaf of the slice"
        elif leaf == ("leaf", 0):
            kinds.add("stay")
            lo, hi = _bound(st, room)
            if off[0] != "aff" or seeknet._const(p_add(off[1], p_add(O, p_const(1)), -1)) != 0:
                bad = "stays in the leaf with offset %s (expected offset + 1)" % (show(off[1]) if off[0] == "aff" else "?")
            elif hi is None or hi > -1:
                bad = "stays in the leaf although offset + 1 may equal its len (offset + 1 - len <= %s on this path)" % hi
        elif leaf[0] == "leaf" and st.next_of.get(0) == leaf[1]:
            kinds.add("next")
            lo, hi = _bound(st, room)
            if off[0] != "aff" or seeknet._const(off[1]) != 0:
                bad = "moves to the next leaf with offset %s (expected 0)" % (show(off[1]) if off[0] == "aff" else "?")
            elif lo is None or lo < 0:
                bad = "moves to the next leaf although entries of this one are left (offset + 1 - len >= %s on this path)" % lo
        else:
            bad = "parks the finger on %r" % (leaf,)
        if bad and bad not in seen:
            seen.add(bad)
            findings.append(dict(
                rule="ITER-ADVANCE", function="BTreeIter_next", file=tu.func("BTreeIter_next").f, line=1,
                construct=bad,
                detail="after handing out the entry at (leaf, offset) the iterator must continue at "
                       "(leaf, offset + 1) while offset + 1 < len(leaf) and at (next leaf, 0) otherwise; "
                       "anything else skips entries or makes the next call fail with 'the bucket being "
                       "iterated changed size'", path=[]))
    return dict(findings=findings, n=n, kinds=sorted(kinds))
