"""Reference discipline of PyObject* locals (C16 LOCAL-REF; feeds C14).

Per local pointer variable v the state holds  w:v -> n  (number of references
this frame owns through v, 0..2).  Sources of ownership: calls that return a
new reference (CPython API table + inferred repo functions) and Py_INCREF(v).
Sinks: Py_DECREF/Py_XDECREF(v), `return v`, a store of v into a non-local
lvalue (field, array slot, out-parameter), a reference-stealing call.
A return reached with w:v > 0 is a leak; Py_DECREF(v) with v known NULL on the
path is a crash.
"""
from ..cir import strip, strip_parens, path, callee, text, const_int, base_var
from ..cfg import CFG
from ..flow import Analysis, sget, sset, sdel, witness_lines
from ..common import AnalysisError

NEW_REF_API = frozenset("""
PyObject_CallObject PyObject_CallFunctionObjArgs PyObject_GetAttr PyObject_GetAttrString
PyObject_GetIter PyIter_Next PyTuple_New PyList_New PyLong_FromLong PyLong_FromLongLong
PyLong_FromUnsignedLongLong PyFloat_FromDouble Py_BuildValue PyTuple_Pack PySequence_List
PySet_New PyNumber_Xor PyUnicode_Format PyUnicode_FromFormat PyUnicode_FromString
PyBytes_FromStringAndSize PySequence_GetItem PyImport_ImportModule _PyObject_New
PyUnicode_InternFromString PyObject_Repr PyObject_Str
""".split())
# (function, index of the argument whose reference is stolen)
STEALS = {"PyTuple_SET_ITEM": 2, "PyList_SetItem": 2, "PyList_SET_ITEM": 2}
DECREF = ("Py_DECREF", "Py_XDECREF", "Py_CLEAR")
INCREF = ("Py_INCREF", "Py_XINCREF")
OUT_OF_SCOPE = ("module_init", "init_persist_type", "init_tree_type",
                "init_type_with_meta_base")


# RELEASE-ATTACHED: reference slots of container nodes
NODE_STRUCTS = ("Bucket_s", "BTree_s", "BTreeItem_s", "Bucket", "BTree", "BTreeItem")
SLOT_FIELDS = ("keys", "values", "key", "child", "next", "firstbucket")
# accepted idioms (one named construct + reason each)
ATTACHED_OK = {
    # (the two releases of emptied nodes in _BTree_set were listed here with the
    #  reason "an empty node of the built-in types has no weak references"; a
    #  leaf class defined in Python has them - witness/agents/child_uaf.py - and
    #  the code was repaired instead, /repo fix "released an emptied child")
    ("bucket_fromBytes", "self->next"):
        "fs buckets store native 2- and 6-byte strings only: releasing a "
        "successor bucket frees memory and runs no foreign code",
}


def infer_detachers(tu):
    """{function: set(parameter index)}: helpers that take slots out of the
    node passed as that parameter (store to P->len, memmove/memcpy into or
    store to P->keys / values / data), closed over calls that pass the
    parameter on."""
    out = {}
    params = {name: [k.n for k in fn.kids if k.k == "ParmVarDecl"] for name, fn in tu.funcs.items()}
    changed = True
    rounds = 0
    while changed and rounds < 6:
        changed = False
        rounds += 1
        for name, fn in tu.funcs.items():
            ps = params[name]
            for n in fn.walk():
                hit = None
                if n.k == "BinaryOperator" and n.v == "=" or n.k == "CompoundAssignOperator" or \
                        (n.k == "UnaryOperator" and n.v in ("++", "--", "post++", "post--")):
                    lp = path(n.kids[0]) or ""
                    for i, pn in enumerate(ps):
                        if lp in ("%s->len" % pn, "%s->keys" % pn, "%s->values" % pn, "%s->data" % pn):
                            hit = i
                elif n.k == "CallExpr" and callee(n)[0] == "fn":
                    c = callee(n)[1]
                    if c in ("memmove", "memcpy") and len(n.kids) > 1:
                        dst = text(n.kids[1])
                        for i, pn in enumerate(ps):
                            if dst.startswith(("%s->keys" % pn, "%s->values" % pn, "%s->data" % pn)):
                                hit = i
                    elif c in out:
                        for j in out[c]:
                            if j + 1 < len(n.kids):
                                ap = path(n.kids[1 + j])
                                if ap in ps:
                                    hit = ps.index(ap)
                                    if hit not in out.get(name, set()):
                                        out.setdefault(name, set()).add(hit)
                                        changed = True
                        continue
                if hit is not None and hit not in out.get(name, set()):
                    out.setdefault(name, set()).add(hit)
                    changed = True
    return out


def node_slot(e):
    """(path, field) when e designates a reference slot (key, value, child,
    next, firstbucket) of a Bucket / BTree / BTreeItem, else None."""
    e = strip(e)
    if e is None:
        return None
    m = e
    if m.k == "ArraySubscriptExpr":
        m = strip(m.kids[0])
    if m is None or m.k != "MemberExpr" or m.n not in SLOT_FIELDS:
        return None
    if (m.n in ("keys", "values")) != (e.k == "ArraySubscriptExpr"):
        return None
    owner = strip(m.kids[0])
    t = (owner.t or "") if owner is not None else ""
    t = t.replace("struct ", "").replace("*", " ").split()
    if not t or t[-1] not in NODE_STRUCTS and t[0] not in NODE_STRUCTS:
        return None
    p = path(e) or text(e).replace(" ", "")
    return p, m.n


def _is_objptr(t):
    if not t:
        return False
    t = t.strip()
    return t.endswith("*") and t.count("*") == 1 and \
        t.split("*")[0].strip().split()[-1] in (
            "PyObject", "_object", "Bucket", "BTree", "Sized", "Bucket_s", "BTree_s",
            "Sized_s", "BTreeItems", "BTreeIter", "PyTypeObject")


class RefAnalysis(Analysis):
    def __init__(self, cfg, tu, newref_funcs, outown=None, detachers=None):
        self.newref_funcs = newref_funcs
        self.outown = outown or {}
        self.detachers = detachers or {}
        self.out_returns = []     # (return value or None, frozenset(params stored owned))
        Analysis.__init__(self, cfg, tu)
        self.reports = []
        self._seen = set()
        self.ret_owned = False
        self.sources = 0
        self.attached_sites = set()
        self.slot_loads = set()
        self.slot_releases = set()
        self.attached_accepted = set()
        self._src_ids = set()
        self.params = set(k.n for k in cfg.fn.kids if k.k == "ParmVarDecl")

    def tracked(self, name):
        return name in self.locals and _is_objptr(self.locals.get(name)) \
            and name not in self.params

    def _locals(self):
        out = Analysis._locals(self)
        # variables whose address is passed to a call (out-parameters) are not
        # tracked; `ASSIGN(v, e)` == PyVar_Assign(&v, e) is modelled explicitly
        taken = set()
        for n in self.cfg.fn.walk():
            if n.k == "CallExpr":
                c = callee(n)
                for a in n.kids[1:]:
                    a0 = strip(a)
                    if a0 is not None and a0.k == "UnaryOperator" and a0.v == "&":
                        b = strip(a0.kids[0])
                        if b is not None and b.k == "DeclRefExpr" and c != ("fn", "PyVar_Assign"):
                            taken.add(b.n)
        self.addr_taken_by_call = taken
        return out

    def extra_uses(self, node):
        out = set()
        e = node.e
        if e is None:
            return out
        if node.kind == "return":
            r0 = strip(e)
            if r0 is not None and r0.k == "DeclRefExpr" and self.is_flag_var(r0.n):
                out.add(r0.n)
        # NULL-ness of tracked pointers matters at DECREF sites and returns
        for n in e.walk():
            if n.k == "CallExpr":
                c = callee(n)
                if c[0] == "fn" and c[1] in DECREF + INCREF and len(n.kids) > 1:
                    b = strip(n.kids[1])
                    if b is not None and b.k == "DeclRefExpr":
                        out.add(b.n)
        return out

    def report(self, rule, node, st, what, detail):
        key = (rule, node.id, what)
        if key not in self._seen:
            self._seen.add(key)
            self.reports.append((rule, node, st, what, detail))

    def _is_newref(self, e):
        e = strip(e)
        if e is not None and e.k == "CallExpr":
            c = callee(e)
            if c[0] == "fn" and (c[1] in NEW_REF_API or c[1] in self.newref_funcs):
                return c[1]
        return None

    def _var(self, e):
        e = strip(e)
        if e is not None and e.k == "DeclRefExpr" and self.tracked(e.n):
            return e.n
        return None

    # objects: a:<var> -> objid ; w:<objid> -> owned count (1..2)
    def _obj(self, st, v):
        return sget(st, "a:" + v)

    def _count(self, st, v):
        o = self._obj(st, v)
        return sget(st, "w:" + o, 0) if o is not None else 0

    def _own(self, st, v, delta, node=None, explicit=False):
        o = self._obj(st, v)
        if o is None:
            if delta <= 0:
                return st
            o = "b:%s" % v
            st = sset(st, "a:" + v, o)
        cur = sget(st, "w:" + o, 0)
        if delta < 0 and cur == 0 and o.startswith("g:") and sget(st, "S:" + o) and node is not None:
            self.slot_releases.add(node.id)
        if delta < 0 and cur == 0 and o.startswith("g:") and not sget(st, "H:" + o) and node is not None:
            # a reference borrowed from a field is given away
            st = sset(st, "P:" + o, node.where)
            src = sget(st, "G:" + o)
            if sget(st, "S:" + o):
                self.attached_sites.add(node.id)
                self.report("RELEASE-ATTACHED", node, st,
                            "%s released while %s still points at it" % (v, src),
                            "%s was loaded from the container slot %s and is "
                            "released before that slot is overwritten or "
                            "removed: releasing an object can run arbitrary "
                            "code (finalizer, weak-reference callback) which "
                            "then finds the container pointing at an object "
                            "that is being destroyed" % (v, src))
        if delta < 0 and cur == 0 and node is not None and explicit and sget(st, "R:" + o):
            self.report("LOCAL-REF", node, st, "%s released twice" % v,
                        "the reference this function owned in %s was already released at %s and "
                        "nothing was acquired since: the second release takes a reference that "
                        "belongs to someone else (use after free later)" % (v, sget(st, "R:" + o)))
        if delta < 0 and cur == 1 and node is not None and explicit:
            # (only explicit releases: a stealing API that failed has also consumed the
            # reference, but those failures - PyList_SetItem on a list sized for the
            # purpose - are not reachable here)
            st = sset(st, "R:" + o, node.where)
        if delta > 0:
            st = sdel(st, "R:" + o)
        n = cur + delta
        n = max(0, min(2, n))
        return sset(st, "w:" + o, n if n else None)

    def _drop_name(self, node, st, v):
        """v is about to be overwritten."""
        o = self._obj(st, v)
        if o is None:
            return st
        st = sdel(st, "a:" + v)
        others = any(k.startswith("a:") and val == o for k, val in st)
        if not others and sget(st, "w:" + o, 0) > 0:
            if sget(st, "f:" + v) != 0:
                self.report("LOCAL-REF", node, st, "%s overwritten while owned" % v,
                            "%s holds a reference owned by this function and is "
                            "overwritten without releasing it (leak)" % v)
            st = sdel(st, "w:" + o)
        return st

    def _assign_var(self, node, st, v, rhs):
        src = self._is_newref(rhs) if rhs is not None else None
        r = self._var(rhs) if rhs is not None else None
        if r == v:
            return st
        robj = self._obj(st, r) if r is not None else None
        st = self._drop_name(node, st, v)
        if src is not None:
            if (node.id, v) not in self._src_ids:
                self._src_ids.add((node.id, v))
                self.sources += 1
            o = "n:%d" % node.id
            # a previous iteration's object of the same site: rename
            if any((k == "w:" + o) or (k.startswith("a:") and val == o) for k, val in st):
                st = frozenset(((k[:2] + o + "'" if k == "w:" + o else k),
                                (o + "'" if (k.startswith("a:") and val == o) else val))
                               for k, val in st)
            st = sset(st, "a:" + v, o)
            st = sset(st, "w:" + o, 1)
        elif r is not None:
            if robj is None:
                robj = "b:%s" % r
                st = sset(st, "a:" + r, robj)
            st = sset(st, "a:" + v, robj)
        else:
            # borrowed from a field / slot of something else: remember where
            # from, so that a release through the local can be matched with
            # the store that takes the reference out of that place
            r0 = strip(rhs) if rhs is not None else None
            if r0 is not None and r0.k in ("MemberExpr", "ArraySubscriptExpr") and path(r0) is not None:
                o = "g:%s@%d" % (v, node.id)
                # a previous iteration's object of the same site: rename it
                if any(k[2:] == o or val == o for k, val in st if k[:2] in ("a:", "w:", "G:", "H:", "P:", "t:")):
                    o1 = o + "'"
                    st = frozenset((k, val) for k, val in st
                                   if not (k[2:] == o1 or (k.startswith("a:") and val == o1)))
                    st = frozenset(((k[:2] + o1) if (k[:2] in ("w:", "G:", "H:", "P:", "t:") and k[2:] == o) else k,
                                    o1 if (k.startswith("a:") and val == o) else val) for k, val in st)
                st = sset(st, "a:" + v, o)
                st = sset(st, "G:" + o, path(r0))
                if node_slot(r0) is not None:
                    st = sset(st, "S:" + o, 1)
                    self.slot_loads.add(node.id)
        return st

    def _copy_of_field(self, st, name, rhs):
        """D:<local> = the field a plain pointer local was copied from (it
        becomes '<detached>' once that field is stored again)."""
        st = sdel(st, "D:" + name)
        r0 = strip(rhs) if rhs is not None else None
        if r0 is not None and r0.k == "MemberExpr" and path(r0) is not None and \
                name in self.locals and name not in self.params:
            st = sset(st, "D:" + name, path(r0))
            return st
        # a pointer derived from such a copy (item = data + 1, end = data + len)
        b = r0
        while b is not None and b.k == "BinaryOperator" and b.v in ("+", "-"):
            a0, a1 = strip(b.kids[0]), strip(b.kids[1])
            b = a0 if (a0 is not None and (a0.t or "").rstrip().endswith("*")) else a1
        if b is not None and b.k == "DeclRefExpr" and sget(st, "D:" + b.n) is not None and \
                name in self.locals and name not in self.params and b.n != name:
            st = sset(st, "D:" + name, sget(st, "D:" + b.n))
        return st

    def _detach(self, st, pred):
        """The slots selected by pred(path) stop pointing at what was loaded
        from them (overwritten, shifted over, or cut off by a length store)."""
        for kk, val in list(st):
            if kk.startswith("G:") and pred(val):
                o2 = kk[2:]
                st = sset(st, "H:" + o2, 1)
                st = sdel(st, "P:" + o2)
        return st

    @staticmethod
    def _array_of(p):
        if "[" in p:
            return p.split("[")[0]
        if "->" in p:
            return p.rsplit("->", 1)[0]
        return p

    def _walk(self, node, st, e):
        k = e.k
        if k == "DeclStmt":
            for d in e.kids:
                if d.k == "VarDecl":
                    init = [c for c in d.kids if c.k != "Absent"]
                    if init:
                        st = self._walk(node, st, init[-1])
                        if self.tracked(d.n):
                            st = self._assign_var(node, st, d.n, init[-1])
                        else:
                            st = self._copy_of_field(st, d.n, init[-1])
            return st
        if k == "BinaryOperator" and e.v == "=":
            st = self._walk(node, st, e.kids[1])
            l0 = strip(e.kids[0])
            v = self._var(e.kids[0])
            if v is not None:
                return self._assign_var(node, st, v, e.kids[1])
            lp = path(e.kids[0])
            if lp is not None and l0 is not None and l0.k == "DeclRefExpr":
                st = self._copy_of_field(st, lp, e.kids[1])
            if lp is not None:
                for kk, val in list(st):
                    if kk.startswith("D:") and val == lp:
                        st = sset(st, kk, "<detached>")
                st = self._detach(st, lambda q: q == lp or self._array_of(q) == lp)
                if lp.endswith("->len"):
                    st = self._detach(st, lambda q: "[" in q or q.endswith(("->key", "->child", ".key", ".child")))
            # store into a non-local lvalue transfers ownership of the rhs var
            r = self._var(e.kids[1])
            if r is not None and l0 is not None and l0.k in (
                    "MemberExpr", "ArraySubscriptExpr", "UnaryOperator"):
                if self._count(st, r) > 0:
                    st = self._own(st, r, -1)
                    if l0.k == "UnaryOperator" and l0.v == "*":
                        b = strip(l0.kids[0])
                        if b is not None and b.k == "DeclRefExpr" and b.n in self.params:
                            st = sset(st, "O:" + b.n, 1)
                else:
                    # `field = v; Py_INCREF(v);` - the INCREF that follows
                    # belongs to the field
                    o = self._obj(st, r)
                    if o is None:
                        o = "b:%s" % r
                        st = sset(st, "a:" + r, o)
                    st = sset(st, "t:" + o, 1)
            return st
        if k in ("UnaryOperator", "CompoundAssignOperator") and e.kids and \
                (k == "CompoundAssignOperator" or e.v in ("++", "--", "post++", "post--")):
            lp = path(e.kids[0])
            for c2 in e.kids:
                st = self._walk(node, st, c2)
            if lp is not None and lp.endswith("->len"):
                st = self._detach(st, lambda q: "[" in q or q.endswith(("->key", "->child", ".key", ".child")))
            return st
        if k == "CallExpr":
            c = callee(e)
            args = e.kids[1:]
            for a in args:
                st = self._walk(node, st, a)
            if c[0] == "fn" and c[1] in ("memmove", "memcpy") and args:
                dst = text(args[0])
                st = self._detach(st, lambda q: dst == self._array_of(q) or
                                  dst.startswith(self._array_of(q) + " "))
            if c[0] == "fn" and c[1] in self.detachers:
                # a helper that takes slots out of the node it is given
                for j in self.detachers[c[1]]:
                    if j < len(args):
                        ap = path(args[j])
                        if ap:
                            st = self._detach(st, lambda q: q.startswith(ap + "->"))
            # out-parameters: &v passed to a call
            for i, a in enumerate(args):
                a0 = strip(a)
                if a0 is None or a0.k != "UnaryOperator" or a0.v != "&":
                    continue
                v = self._var(a0.kids[0])
                if v is None or c == ("fn", "PyVar_Assign"):
                    continue
                st = self._drop_name(node, st, v)
                st = sdel(st, "f:" + v)
                if c[0] == "fn" and c[1] in self.outown and i in self.outown[c[1]]:
                    # owned iff the call's result is > 0; resolved on the
                    # branches that test the variable receiving the result
                    st = sset(st, "q:" + v, "n:%d" % node.id)
                elif c[0] == "fn" and c[1].startswith("PyArg_"):
                    st = sset(st, "a:" + v, "b:%s" % v)
            if c[0] == "fn":
                if c[1] in INCREF and args:
                    v = self._var(args[0])
                    if v is not None:
                        fl = sget(st, "f:" + v)
                        o = self._obj(st, v)
                        if o is not None and sget(st, "t:" + o):
                            st = sdel(st, "t:" + o)
                        elif not (c[1] == "Py_XINCREF" and fl == 0):
                            st = self._own(st, v, +1)
                        if c[1] == "Py_INCREF" and fl == 0:
                            self.report("LOCAL-REF", node, st, "Py_INCREF(%s) with %s NULL" % (v, v),
                                        "%s is NULL on this path and reaches Py_INCREF" % v)
                elif c[1] in DECREF and args:
                    v = self._var(args[0])
                    slot = node_slot(args[0]) if v is None else None
                    if slot is not None:
                        self.attached_sites.add(node.id)
                        why = ATTACHED_OK.get((self.cfg.fn.n, slot[0]))
                        root = base_var(args[0])
                        if root is not None and sget(st, "D:" + root) == "<detached>":
                            # the array was taken out of its node before
                            pass
                        elif why is not None:
                            self.attached_accepted.add("%s: %s - %s" % (self.cfg.fn.n, slot[0], why))
                        else:
                            self.report("RELEASE-ATTACHED", node, st,
                                        "%s released in place" % slot[0],
                                        "%s(%s) releases the object while the "
                                        "container slot still points at it: "
                                        "releasing can run arbitrary code "
                                        "(finalizer, weak-reference callback) "
                                        "which then finds a pointer to an "
                                        "object that is being destroyed. Take "
                                        "the reference into a local, update "
                                        "the slot, then release" % (c[1], slot[0]))
                    if v is not None:
                        fl = sget(st, "f:" + v)
                        if c[1] == "Py_DECREF" and fl == 0:
                            self.report("LOCAL-REF", node, st,
                                        "Py_DECREF(%s) with %s NULL" % (v, v),
                                        "%s is NULL on this path and reaches "
                                        "Py_DECREF (only the X form tolerates "
                                        "NULL): crash" % v)
                        if not (fl == 0):
                            st = self._own(st, v, -1, node, explicit=True)
                elif c[1] in STEALS:
                    i = STEALS[c[1]]
                    if i < len(args):
                        v = self._var(args[i])
                        if v is not None:
                            st = self._own(st, v, -1, node)
                elif c[1] == "Py_BuildValue" and args:
                    # "N" format units steal the reference of their argument
                    f0 = strip(args[0])
                    fmt = (f0.v or "") if f0 is not None and f0.k == "StringLiteral" else ""
                    units = [ch for ch in fmt if ch.isalpha()]
                    for ch, a in zip(units, args[1:]):
                        if ch == "N":
                            v = self._var(a)
                            if v is not None:
                                st = self._own(st, v, -1)
                elif c[1] == "PyVar_Assign" and len(args) == 2:
                    # ASSIGN(v, e): Py_XDECREF(v); v = e
                    a0 = strip(args[0])
                    if a0 is not None and a0.k == "UnaryOperator" and a0.v == "&":
                        v = self._var(a0.kids[0])
                        if v is not None:
                            if sget(st, "f:" + v) != 0:
                                st = self._own(st, v, -1)
                            st = sdel(st, "f:" + v)
                            st = self._assign_var(node, st, v, args[1])
            return st
        for c2 in e.kids:
            st = self._walk(node, st, c2)
        return st

    def on_node(self, node, st):
        if node.e is None:
            return [st]
        if node.kind == "return":
            st = self._walk(node, st, node.e)
            return [st]
        return [self._walk(node, st, node.e)]

    def on_edge(self, node, label, st):
        # NULL edge of a tracked variable: nothing is owned through it
        if label not in ("T", "F") or node.e is None:
            return st
        e0 = strip(node.e)
        pend = [(k[2:], o) for k, o in st if k.startswith("q:")]
        if pend and e0 is not None and e0.k == "BinaryOperator" and \
                e0.v in ("<", "<=", ">", ">=", "==", "!="):
            a, b = strip(e0.kids[0]), strip(e0.kids[1])
            if a is not None and a.k == "BinaryOperator" and a.v == "=":
                a = strip(a.kids[0])
            cb = const_int(b)
            if cb is not None and a is not None and a.k == "DeclRefExpr" and \
                    not a.n.startswith("_") and (self.locals.get(a.n) or "").strip() in ("int", "long"):
                op = e0.v
                if label == "F":
                    op = {"<": ">=", "<=": ">", ">": "<=", ">=": "<", "==": "!=", "!=": "=="}[op]
                pos = (op == ">" and cb >= 0) or (op == ">=" and cb >= 1) or (op == "==" and cb >= 1)
                nonpos = (op == "<" and cb <= 1) or (op == "<=" and cb <= 0) or (op == "==" and cb <= 0)
                if pos or nonpos:
                    for v, o in pend:
                        st = sdel(st, "q:" + v)
                        if pos:
                            st = sset(st, "a:" + v, o)
                            st = sset(st, "w:" + o, 1)
        if e0 is not None and e0.k == "BinaryOperator" and e0.v in ("==", "!="):
            a, b = strip(e0.kids[0]), strip(e0.kids[1])
            for x, y in ((a, b), (b, a)):
                v = self._var(x)
                if v is not None and y is not None and text(y) == "&_Py_NoneStruct":
                    o = self._obj(st, v)
                    if o is not None and o.startswith("n:"):
                        # a freshly created object is not None
                        truth = (e0.v == "!=")
                        if truth != (label == "T"):
                            return None
        for k, o in list(st):
            if k.startswith("a:"):
                v = k[2:]
                if sget(st, "f:" + v) == 0:
                    st = sdel(st, "w:" + o)
                    st = sdel(st, k)
        return st

    def check_exits(self):
        for n in self.cfg.returns():
            rv = self._var(n.e) if n.e is not None else None
            if n.e is not None and self._is_newref(n.e):
                self.ret_owned = True
            for st in self.IN.get(n.id, ()):
                st2 = self._walk(n, st, n.e) if n.e is not None else st
                rval = self.flag_value_of(n.e, st2) if n.e is not None else None
                self.out_returns.append((rval, frozenset(k[2:] for k, _ in st2 if k.startswith("O:"))))
                robj = self._obj(st2, rv) if rv is not None else None
                for k, where in st2:
                    if k.startswith("P:"):
                        o = k[2:]
                        src = sget(st2, "G:" + o)
                        self.report("LOCAL-REF", n, st, "%s released but still referenced by %s" % (
                            o[2:].split("@")[0], src),
                            "%s was loaded from %s (a borrowed reference), is "
                            "released at %s, and %s is never overwritten on "
                            "this path: the container keeps a pointer whose "
                            "reference has been given away (use after free "
                            "once the other owners go)" % (o[2:].split("@")[0], src, where, src))
                for k, cnt in st2:
                    if not k.startswith("w:"):
                        continue
                    o = k[2:]
                    names = sorted(kk[2:] for kk, val in st2 if kk.startswith("a:") and val == o)
                    v = "/".join(names) if names else o
                    if o == robj:
                        self.ret_owned = True
                        cnt -= 1
                    if names and all(sget(st2, "f:" + nm) == 0 for nm in names):
                        continue
                    if cnt > 0:
                        self.report("LOCAL-REF", n, st, "%s leaked at return %s" % (
                            v, text(n.e)[:40] if n.e is not None else ""),
                            "the reference held in %s is neither released, "
                            "returned nor stored when the function returns "
                            "here" % v)


def infer_newref_funcs(tu):
    """Repo functions that return a new reference (fixpoint)."""
    out = set()
    cand = [n for n in tu.order if _is_objptr((tu.funcs[n].t or "").split("(")[0])]
    for _ in range(6):
        changed = False
        for name in cand:
            if name in out:
                continue
            fn = tu.funcs[name]
            an = RefAnalysis(CFG(fn), tu, out)
            an.track_flags = True
            try:
                an.solve()
            except AnalysisError:
                continue
            an.reports = []
            an.check_exits()
            if an.ret_owned:
                out.add(name)
                changed = True
        if not changed:
            break
    return out


def infer_outown(tu, newref):
    """{function: {arg index}} for out-parameters that receive a new
    reference exactly on the returns with a positive value."""
    out = {}
    for name in tu.order:
        fn = tu.funcs[name]
        params = [k for k in fn.kids if k.k == "ParmVarDecl"]
        cands = [i for i, p in enumerate(params)
                 if (p.t or "").count("*") == 2 and _is_objptr((p.t or "").rstrip()[:-1].rstrip())]
        if not cands:
            continue
        an = RefAnalysis(CFG(fn), tu, newref)
        try:
            an.solve()
        except AnalysisError:
            continue
        an.check_exits()
        for i in cands:
            pn = params[i].n
            with_o = [rv for rv, ps in an.out_returns if pn in ps]
            without = [rv for rv, ps in an.out_returns if pn not in ps]
            if with_o and all(isinstance(rv, int) and rv > 0 for rv in with_o) and \
                    all(isinstance(rv, int) and rv <= 0 for rv in without):
                out.setdefault(name, set()).add(i)
    return out


def analyse_tu(tu):
    newref = infer_newref_funcs(tu)
    outown = infer_outown(tu, newref)
    detachers = infer_detachers(tu)
    findings = []
    sources = funcs = 0
    slot_loads = attached = taken = 0
    accepted = set()
    for name in tu.order:
        if name in OUT_OF_SCOPE or name.startswith("PyInit_"):
            continue
        fn = tu.funcs[name]
        an = RefAnalysis(CFG(fn), tu, newref, outown, detachers)
        an.solve()
        an.check_exits()
        funcs += 1
        sources += an.sources
        slot_loads += len(an.slot_loads)
        attached += len(an.attached_sites)
        taken += len(an.slot_releases)
        accepted |= an.attached_accepted
        for rule, node, st, what, detail in an.reports:
            findings.append(dict(
                rule=rule, function=name, file=node.where.split(":")[0],
                line=node.line, construct=what, detail=detail,
                path=witness_lines(an.witness(node, st))))
    return dict(findings=findings,
                stats={"functions": funcs, "newref_sources": sources,
                       "slot_loads": slot_loads, "slot_release_sites": attached, "slot_takeover_releases": taken,
                       "attached_accepted": sorted(accepted),
                       "out_owned": {k: sorted(v) for k, v in outown.items()},
                       "newref_functions": len(newref)})


# ---------------------------------------------------------------------------
# SETITEM-FRESH: the unchecked PyTuple_SET_ITEM / PyList_SET_ITEM macros do not
# release the item a slot already holds; they are only correct on a container
# this function created empty (PyTuple_New / PyList_New).

EMPTY_CTORS = ("PyTuple_New", "PyList_New")


class _SetItem(Analysis):
    """Reaching definition kind of container variables: 'E' created empty
    here, 'O' anything else."""
    track_flags = False

    def __init__(self, cfg, tu):
        Analysis.__init__(self, cfg, tu)
        self.reports = {}
        self.sites = set()

    def _kind(self, rhs):
        d = strip(rhs)
        if d is not None and d.k == "CallExpr" and callee(d)[0] == "fn" and callee(d)[1] in EMPTY_CTORS:
            return "E"
        return "O"

    def _walk(self, node, st, e):
        if e.k == "BinaryOperator" and e.v == "=":
            st = self._walk(node, st, e.kids[1])
            lp = path(e.kids[0])
            if lp is not None:
                st = sset(st, "v:" + lp, self._kind(e.kids[1]))
            return st
        if e.k == "VarDecl" and e.n:
            init = [c for c in e.kids if c.k != "Absent"]
            if init:
                st = self._walk(node, st, init[-1])
                st = sset(st, "v:" + e.n, self._kind(init[-1]))
            return st
        for c in e.kids:
            st = self._walk(node, st, c)
        if e.k == "CallExpr":
            c = callee(e)
            if c == ("fn", "PyVar_Assign") and len(e.kids) > 2:
                a0 = strip(e.kids[1])
                if a0 is not None and a0.k == "UnaryOperator" and a0.v == "&":
                    lp = path(a0.kids[0])
                    if lp is not None:
                        st = sset(st, "v:" + lp, self._kind(e.kids[2]))
            elif c[0] == "fn" and c[1] in ("PyTuple_SET_ITEM", "PyList_SET_ITEM"):
                self.sites.add((node.id, e.l, e.c))
                v = path(e.kids[1])
                if v is None or sget(st, "v:" + v) != "E":
                    self.reports.setdefault((e.f, e.l, c[1], v or text(e.kids[1])[:30]), (node, st))
        return st

    def on_node(self, node, st):
        if node.e is None:
            return [st]
        return [self._walk(node, st, node.e)]


def setitem_fresh(tu):
    findings = []
    sites = 0
    for name in tu.order:
        fn = tu.funcs[name]
        if not any(n.k == "CallExpr" and callee(n)[0] == "fn" and
                   callee(n)[1] in ("PyTuple_SET_ITEM", "PyList_SET_ITEM") for n in fn.walk()):
            continue
        an = _SetItem(CFG(fn), tu)
        an.solve()
        sites += len(an.sites)
        for (f, l, mac, v), (node, st) in sorted(an.reports.items()):
            findings.append(dict(
                rule="SETITEM-FRESH", function=name, file=f, line=l,
                construct="%s on %s, which is not a container created empty here" % (mac, v),
                detail="%s stores without releasing the item the slot already "
                       "holds; on this path %s does not come from %s, so a "
                       "stored object is overwritten and leaked" % (mac, v, "/".join(EMPTY_CTORS)),
                path=witness_lines(an.witness(node, st))))
    return dict(findings=findings, sites=sites)


# ---------------------------------------------------------------------------
# SLOT-PAIR: ownership of key / value slots (object-keyed / -valued TUs)

class SlotPair(Analysis):
    """After COPY_KEY(slot, src) the slot holds one more reference than it
    owns unless src is abandoned (the unused key slot 0 of an interior node
    that hands its reference over): exactly one INCREF_KEY(slot) must follow
    for a copy and none for a move, before the slot is overwritten or the
    function returns.  Likewise for COPY_VALUE / INCREF_VALUE."""

    track_flags = True
    MACROS = {"COPY_KEY": "INCREF_KEY", "COPY_VALUE": "INCREF_VALUE"}

    def __init__(self, cfg, tu):
        Analysis.__init__(self, cfg, tu)
        self.reports = []
        self._seen = set()
        self.stores = set()

    @staticmethod
    def _is_slot(p):
        return p is not None and ("->" in p or "[" in p or "." in p)

    @staticmethod
    def _is_move_source(e):
        t = text(e).replace(" ", "")
        return t.endswith("->data->key") or t.endswith("->data[0].key")

    def report(self, node, st, what, detail):
        if (node.id, what) not in self._seen:
            self._seen.add((node.id, what))
            self.reports.append((node, st, what, detail))

    def _close(self, node, st, slot, why):
        need = sget(st, "k:" + slot)
        if need is None:
            return st
        if need > 0:
            self.report(node, st, "%s copied without INCREF (%s)" % (slot, why),
                        "a key/value was copied into %s but the slot never "
                        "acquired its own reference before %s: the object is "
                        "released twice when both owners let go" % (slot, why))
        elif need < 0:
            self.report(node, st, "%s INCREF'd although the reference was moved (%s)" % (slot, why),
                        "%s took over the reference parked in the unused key "
                        "slot of the new sibling and was INCREF'd in addition: "
                        "one surplus reference per split that is never "
                        "released (leak)" % slot)
        return sdel(st, "k:" + slot)

    def on_node(self, node, st):
        e = node.e
        if e is None:
            return [st]
        for n in e.walk():
            if n.k == "BinaryOperator" and n.v == "=" and n.mo in self.MACROS:
                slot = path(n.kids[0])
                if not self._is_slot(slot):
                    continue
                lt = (n.kids[0].t or "").strip()
                if lt != "PyObject *":
                    continue
                st = self._close(node, st, slot, "overwritten")
                self.stores.add(node.id)
                st = sset(st, "k:" + slot, 0 if self._is_move_source(n.kids[1]) else 1)
            elif n.k == "CallExpr" and callee(n) == ("fn", "Py_INCREF") and \
                    n.mo in ("INCREF_KEY", "INCREF_VALUE") and len(n.kids) > 1:
                slot = path(n.kids[1])
                cur = sget(st, "k:" + slot) if slot else None
                if cur is not None:
                    st = sset(st, "k:" + slot, cur - 1)
        return [st]

    def check_exits(self):
        for n in self.cfg.returns():
            for st in self.IN.get(n.id, ()):
                for k, v in list(st):
                    if k.startswith("k:") and v != 0:
                        self._close(n, st, k[2:], "return")


def slot_pair(tu):
    findings = []
    stores = 0
    for name in tu.order:
        fn = tu.funcs[name]
        if not any(n.k == "BinaryOperator" and n.mo in SlotPair.MACROS and
                   (n.kids[0].t or "").strip() == "PyObject *" for n in fn.walk()):
            continue
        an = SlotPair(CFG(fn), tu)
        an.solve()
        an.check_exits()
        stores += len(an.stores)
        for node, st, what, detail in an.reports:
            findings.append(dict(
                rule="SLOT-PAIR", function=name, file=node.where.split(":")[0], line=node.line,
                construct=what, detail=detail, path=witness_lines(an.witness(node, st))))
    return dict(findings=findings, stores=stores)
