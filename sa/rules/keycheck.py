"""KEY-CHECK-DOM (C13): in the object-key families every insertion of a key is
dominated by the comparability check.

`check_argument_cmp(key)` rejects objects that only have object's default
comparison (their order changes between processes: such a key can be stored but
not found again).  In `_bucket_set` and `_BTree_set` of an object-key unit every
node that copies the key argument into a key slot (`COPY_KEY(self->keys[i],
key)` / the descent into a child with a value) must be dominated by a branch on
the result of the check whose failing edge cannot reach it.  A check moved under
a narrower condition (mappings only, say) lets sets store such keys.
"""
from ..cir import strip, path, callee, text
from ..cfg import CFG
from ..flow import Analysis, sget, sset, witness_lines
from ..common import AnalysisError

CHECKERS = ("check_argument_cmp",)


def _reach(start, barrier):
    seen, work = set(), [start]
    while work:
        n = work.pop()
        if n.id in seen or n.id == barrier:
            continue
        seen.add(n.id)
        work.extend(s for _, s in n.succ)
    return seen


class KeyCheck(Analysis):
    """flag-sensitive: `kc` is set on the success edge of the check; the
    null-ness of the value parameter is tracked by the flag machinery, so the
    delete paths (value NULL, no check needed) do not reach the insert"""

    def __init__(self, cfg, tu, insert_ids):
        Analysis.__init__(self, cfg, tu)
        self.insert_ids = insert_ids
        self.bad = []
        self.live = self._flag_liveness()

    def extra_uses(self, node):
        # keep the pointer parameters' null-ness alive
        return set(k.n for k in self.cfg.fn.kids if k.k == "ParmVarDecl" and (k.t or "").strip().endswith("*"))

    def on_node(self, node, st):
        st = self.flags_stmt(node, st) if node.kind != "branch" else st
        if node.id in self.insert_ids and not sget(st, "kc"):
            self.bad.append((node, st))
        return [st]

    def on_edge(self, node, label, st):
        st2 = self.flags_edge(node, label, st)
        if st2 is None:
            return None
        st = st2
        if label in ("T", "F") and node.e is not None:
            e = strip(node.e)
            neg = False
            while e is not None and e.k == "UnaryOperator" and e.v == "!":
                neg = not neg
                e = strip(e.kids[0])
            if e is not None and e.k == "CallExpr" and callee(e)[0] == "fn" and (
                    callee(e)[1] in CHECKERS or callee(e)[1] in getattr(self, "cond_checkers", ())):
                ok_label = "F" if neg else "T"
                if label == ok_label:
                    st = sset(st, "kc", True)
        return st


def conditional_checkers(tu):
    """repository functions that return non-zero only after the comparability
    check succeeded - or with one of their pointer parameters NULL (the
    conversion step of a store factored out of _bucket_set: a delete, value
    NULL, needs no check and inserts nothing)"""
    out = set()
    for name in tu.order:
        fn = tu.funcs[name]
        if name in CHECKERS or tu.body(name) is None or (fn.t or "").split("(")[0].strip() != "int":
            continue
        if not any(n.k == "CallExpr" and callee(n)[0] == "fn" and callee(n)[1] in CHECKERS for n in fn.walk()):
            continue
        cfg = CFG(fn)
        an = KeyCheck(cfg, tu, set())
        an.track_flags = False
        an.solve()
        ptr_params = [k.n for k in fn.kids if k.k == "ParmVarDecl" and (k.t or "").strip().endswith("*")]
        ok = True
        seen = False
        for r in cfg.returns():
            for st in an.IN.get(r.id, ()):
                st2 = an.flags_stmt(r, st)
                v = an.flag_value_of(r.e, st2) if r.e is not None else None
                if v == 0:
                    continue                      # the failure answer
                seen = True
                if sget(st2, "kc"):
                    continue
                if any(sget(st2, "f:" + p) == 0 for p in ptr_params):
                    continue
                ok = False
        if ok and seen:
            out.add(name)
    return out


def analyse_tu(tu):
    if not any(c in tu.funcs for c in CHECKERS):
        return dict(findings=[], stats={"key_insert_sites": 0, "object_keys": False})
    findings = []
    sites = 0
    for name in ("_bucket_set",):           # the leaf stores the key; the tree-level check is an early exit only
        if name not in tu.funcs:
            raise AnalysisError("anchor vanished: %s" % name)
        fn = tu.funcs[name]
        cfg = CFG(fn)
        live = cfg.live_nodes()
        dom = cfg.dominators()
        params = [k.n for k in fn.kids if k.k == "ParmVarDecl"]
        # locals that stand for the key argument (COPY_KEY_FROM_ARG(key, keyarg, ..))
        keyvars = set(p for p in params if "key" in p)
        for n in fn.walk():
            if n.k == "BinaryOperator" and n.v == "=":
                l, r = strip(n.kids[0]), strip(n.kids[1])
                if l is not None and l.k == "DeclRefExpr" and r is not None and r.k == "DeclRefExpr" \
                        and r.n in keyvars:
                    keyvars.add(l.n)
        for n in fn.walk():
            if n.k == "CallExpr" and callee(n)[0] == "fn" and callee(n)[1] in tu.funcs and \
                    any(strip(a) is not None and strip(a).k == "DeclRefExpr" and strip(a).n in keyvars
                        for a in n.kids[1:]):
                for a in n.kids[1:]:
                    a0 = strip(a)
                    if a0 is not None and a0.k == "UnaryOperator" and a0.v == "&":
                        b = strip(a0.kids[0])
                        if b is not None and b.k == "DeclRefExpr" and "key" in b.n.lower():
                            keyvars.add(b.n)      # filled by the callee from the key argument
        inserts = []
        for nd in live:
            if nd.e is None or nd.kind == "branch":
                continue
            for n in nd.e.walk():
                if n.k == "BinaryOperator" and n.v == "=":
                    l, r = strip(n.kids[0]), strip(n.kids[1])
                    if l is not None and l.k == "ArraySubscriptExpr":
                        b = strip(l.kids[0])
                        if b is not None and b.k == "MemberExpr" and b.n == "keys" and r is not None and \
                                r.k == "DeclRefExpr" and r.n in keyvars:
                            inserts.append((nd, n))
        if name == "_bucket_set" and not inserts:
            raise AnalysisError("anchor vanished: key store of _bucket_set")
        guards = []
        for g in live:
            if g.kind != "branch" or g.e is None:
                continue
            e = strip(g.e)
            neg = False
            while e is not None and e.k == "UnaryOperator" and e.v == "!":
                neg = not neg
                e = strip(e.kids[0])
            if e is not None and e.k == "CallExpr" and callee(e)[0] == "fn" and callee(e)[1] in CHECKERS:
                fail = "T" if neg else "F"
                guards.append((g, fail))
        sites += len(inserts)
        an = KeyCheck(cfg, tu, set(nd.id for nd, _ in inserts))
        an.track_flags = False
        an.cond_checkers = conditional_checkers(tu)
        an.solve()
        if an.bad:
            nd, st = an.bad[0]
            n = [x for y, x in inserts if y.id == nd.id][0]
            findings.append(dict(
                rule="KEY-CHECK-DOM", function=name, file=n.f, line=n.l,
                construct="key stored in %s on a path that does not pass the comparability check" % name,
                detail="`%s` is reachable without check_argument_cmp(key) having succeeded: a key "
                       "whose class has only object's default comparison is stored (by a Set / "
                       "TreeSet, or whatever the narrower condition leaves out) and cannot be "
                       "found again" % text(n)[:60], path=witness_lines(an.witness(nd, st))))
    return dict(findings=findings, stats={"key_insert_sites": sites, "object_keys": True})
