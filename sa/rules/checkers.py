"""Diagnostic checkers (C18): CHECK-INVENTORY, CHECK-AGREE, COMPLAIN-DISC,
RANGE-PROP.

Every assertion of the C `_check` (BTree_check_inner) and of the Python
`_Tree._check` is normalised to a predicate atom with a scope; each corruption
class named by the property must be covered by an atom, no assertion may be
weakened by a disjunction, and the two implementations must assert the same
atoms with the same scope.  For BTrees.check: the three comparisons of
check_sorted all reach complain -> errors -> AssertionError, and the key range
handed down to each child is lo' = keys[i-1] if i > 0 else lo,
hi' = keys[i] if i < n-1 else hi (decision table over the two atoms).
"""
import ast
import re

from ..cir import strip, path, callee, text, const_int
from ..common import AnalysisError, SRC
from .. import pyfront

REL = SRC + "/_base.py"
CHK = SRC + "/check.py"

# corruption class -> atoms that must be asserted
REQUIRED = {
    "linking of leaves": ["leaf-next-links", "firstbucket-is-first-leaf",
                          "firstbucket-matches-first-subtree", "recurse-with-successor"],
    "uniformity of child kinds": ["child-kind-uniform"],
    "non-emptiness of nodes": ["child-nonempty:leaf", "child-nonempty:tree",
                               "empty-has-no-firstbucket", "nonempty-has-firstbucket"],
}


def _c_atom(cond, in_tree_branch, in_leaf_branch):
    t = text(cond).replace(" ", "")
    scope = "tree" if in_tree_branch else "leaf" if in_leaf_branch else "self"
    if "||" in t:
        return "WEAKENED:" + t[:80]
    if re.search(r"self->firstbucket==\(void\*\)0", t):
        return "empty-has-no-firstbucket"
    if re.search(r"self->firstbucket!=\(void\*\)0", t):
        return "nonempty-has-firstbucket"
    if re.search(r"self->data\[i\]\.child!=\(void\*\)0", t):
        return "child-nonnull"
    if "Py_TYPE" in t and "child" in t:
        return "child-kind-uniform"
    if re.search(r"child->len>=1", t):
        return "child-nonempty:" + scope
    if re.search(r"self->firstbucket==\(Bucket\*\)self->data\[0\]\.child", t):
        return "firstbucket-is-first-leaf"
    if re.search(r"self->firstbucket==\(BTree\*\)child->firstbucket", t):
        return "firstbucket-matches-first-subtree"
    if re.search(r"\(Bucket\*\)child->next==bucketafter", t):
        return "leaf-next-links"
    if "Py_REFCNT" in t or "->size" in t or "len>=0" in t:
        return "memory:" + t[:40]
    return "other:" + t[:60]


def c_atoms(tu):
    fn = tu.func("BTree_check_inner")
    atoms = []
    # which branch of the child-kind test are we in
    kind_if = None
    for n in fn.walk():
        if n.k == "IfStmt" and len(n.kids) > 2 and "Py_TYPE" in text(n.kids[0]) and \
                "data[0]" in text(n.kids[0]) and n.mo != "CHECK":
            kind_if = n
    if kind_if is None:
        raise AnalysisError("anchor vanished: child-kind test in BTree_check_inner")
    tree_nodes = set(id(x) for x in kind_if.kids[1].walk())
    leaf_nodes = set(id(x) for x in kind_if.kids[2].walk())
    for n in fn.walk():
        if n.k == "IfStmt" and n.mo == "CHECK":
            c = strip(n.kids[0])
            if c.k == "UnaryOperator" and c.v == "!":
                c = strip(c.kids[0])
            atoms.append((_c_atom(c, id(n) in tree_nodes, id(n) in leaf_nodes), n.l))
    # recursion with the successor and the successor definitions
    rec = [c for c in fn.walk() if c.k == "CallExpr" and callee(c) == ("fn", "BTree_check_inner")]
    succ_defs = sorted(set(text(a.kids[1]).replace(" ", "") for a in fn.walk()
                           if a.k == "BinaryOperator" and a.v == "=" and path(a.kids[0]) == "bucketafter"))
    if rec and path(rec[0].kids[2]) == "bucketafter" and \
            succ_defs == sorted(["(Bucket*)self->data[(i+1)].child", "child2->firstbucket", "nextbucket"]):
        atoms.append(("recurse-with-successor", rec[0].l))
    else:
        atoms.append(("other:successor %s" % succ_defs, fn.l))
    return atoms


def _py_atom(cond, scope):
    t = pyfront.unparse(cond).replace(" ", "")
    if " or " in pyfront.unparse(cond):
        return "WEAKENED:" + t[:80]
    table = {
        "self._firstbucketisNone": "empty-has-no-firstbucket",
        "self._firstbucketisnotNone": "nonempty-has-firstbucket",
        "i.childisnotNone": "child-nonnull",
        "type(i.child)ischild_class": "child-kind-uniform",
        "i.child.size": "child-nonempty:all",
        "self._firstbucketisdata[0].child._firstbucket": "firstbucket-matches-first-subtree",
        "self._firstbucketisdata[0].child": "firstbucket-is-first-leaf",
        "data[i].child._nextisdata[i+1].child": "leaf-next-links:inner",
        "data[-1].child._nextisnextbucket": "leaf-next-links:last",
        "False": "child-kind-known",
    }
    return table.get(t, "other:" + t[:60])


def py_atoms():
    tree = pyfront.base_py()
    t = pyfront.class_members(pyfront.classes(tree)["_Tree"])
    fn = t.get("_check")
    if not isinstance(fn, ast.FunctionDef):
        raise AnalysisError("anchor vanished: _Tree._check")
    atoms = []
    for c in ast.walk(fn):
        if isinstance(c, ast.Call) and pyfront.unparse(c.func) in ("assert_", "self._assert") and c.args:
            atoms.append((_py_atom(c.args[0], None), c.lineno))
    rec = [pyfront.unparse(c).replace(" ", "") for c in ast.walk(fn) if isinstance(c, ast.Call) and
           isinstance(c.func, ast.Attribute) and c.func.attr == "_check"]
    if sorted(rec) == sorted(["data[i].child._check(data[i+1].child._firstbucket)",
                              "data[-1].child._check(nextbucket)"]):
        atoms.append(("recurse-with-successor", fn.lineno))
    else:
        atoms.append(("other:recursion %s" % rec, fn.lineno))
    # _assert raises AssertionError
    a = t.get("_assert")
    if not isinstance(a, ast.FunctionDef) or "raise AssertionError" not in pyfront.unparse(a):
        atoms.append(("other:_assert does not raise AssertionError", fn.lineno))
    return atoms


def _expand(atoms):
    out = set()
    for a, _ in atoms:
        if a == "child-nonempty:all":
            out |= {"child-nonempty:leaf", "child-nonempty:tree"}
        elif a.startswith("leaf-next-links"):
            out.add(a)
        else:
            out.add(a)
    if {"leaf-next-links:inner", "leaf-next-links:last"} <= out:
        out -= {"leaf-next-links:inner", "leaf-next-links:last"}
        out.add("leaf-next-links")
    return out


def compare(c_atoms_list, py_atoms_list, where_c="BTree_check_inner"):
    findings = []
    cset, pset = _expand(c_atoms_list), _expand(py_atoms_list)
    for name, s, file, fn in (("C", cset, "src/BTrees/BTreeTemplate.c", where_c),
                              ("Python", pset, REL, "_Tree._check")):
        for a in sorted(s):
            if a.startswith("WEAKENED:"):
                findings.append(dict(
                    rule="CHECK-INVENTORY", function=fn, file=file, line=1,
                    construct="assertion weakened by a disjunction: %s" % a[9:],
                    detail="an assertion of %s _check passes whenever an "
                           "alternative holds; the corruption it guards "
                           "against is no longer reported in that case" % name, path=[]))
            if a.startswith("other:"):
                findings.append(dict(
                    rule="CHECK-INVENTORY", function=fn, file=file, line=1,
                    construct="unrecognised assertion %s" % a[6:],
                    detail="an assertion of %s _check is not one of the "
                           "known predicates (changed or new condition)" % name, path=[]))
        for cls, req in REQUIRED.items():
            for a in req:
                if a not in s:
                    findings.append(dict(
                        rule="CHECK-INVENTORY", function=fn, file=file, line=1,
                        construct="%s _check lacks the predicate %s (%s)" % (name, a, cls),
                        detail="corruptions of class '%s' are meant to be "
                               "rejected; the %s _check does not assert %s"
                               % (cls, name, a), path=[]))
    core = lambda s: set(a for a in s if not a.startswith(("memory:", "WEAKENED:", "other:", "child-kind-known")))
    diff = core(cset) ^ core(pset)
    for a in sorted(diff):
        # already reported as lacking on one side?
        if any(a in req for req in REQUIRED.values()):
            continue
        findings.append(dict(
            rule="CHECK-AGREE", function="_check", file="src/BTrees", line=1,
            construct="%s asserted only by %s" % (a, "C" if a in cset else "Python"),
            detail="the two _check implementations assert different "
                   "predicates", path=[]))
    return findings, len(cset) + len(pset)


# ---------------------------------------------------------------------------
# check.py

def check_py_module(res):
    tree = pyfront.module(CHK)
    cls = pyfront.classes(tree)
    n = 0
    ck = cls.get("Checker")
    wk = cls.get("Walker")
    if ck is None or wk is None:
        raise AnalysisError("anchor vanished: check.Checker / Walker")
    mem = pyfront.class_members(ck)
    cs = mem.get("check_sorted")
    if not isinstance(cs, ast.FunctionDef):
        raise AnalysisError("anchor vanished: Checker.check_sorted")
    # COMPLAIN-DISC: the three comparisons
    want = {"lo is not None and (not compare(lo, x) <= 0)": "key below the lower bound",
            "hi is not None and (not compare(x, hi) < 0)": "key at or above the upper bound",
            "i < n - 1 and (not compare(x, keys[i + 1]) < 0)": "keys out of order / duplicate"}
    found = {}
    for i in ast.walk(cs):
        if isinstance(i, ast.If):
            t = pyfront.unparse(i.test)
            complains = any(isinstance(c, ast.Call) and pyfront.unparse(c.func) == "self.complain"
                            for b in i.body for c in ast.walk(b))
            found[t] = complains
    for t, what in want.items():
        n += 1
        if not found.get(t):
            res.findings.add(dict(
                rule="COMPLAIN-DISC", function="Checker.check_sorted", file=CHK, line=cs.lineno,
                construct="comparison `%s` missing or not reported" % t,
                detail="check_sorted must report a %s through self.complain" % what, path=[]))
    loop = [x for x in cs.body if isinstance(x, ast.For)]
    n += 1
    if not loop or pyfront.unparse(loop[0].iter) != "keys" or \
            not any(pyfront.unparse(b) == "i += 1" for b in loop[0].body):
        res.findings.add(dict(
            rule="COMPLAIN-DISC", function="Checker.check_sorted", file=CHK, line=cs.lineno,
            construct="check_sorted does not visit every key",
            detail="every key of the node must be compared", path=[]))
    cp = mem.get("complain")
    n += 1
    if not isinstance(cp, ast.FunctionDef) or "self.errors.append(s)" not in pyfront.unparse(cp):
        res.findings.add(dict(
            rule="COMPLAIN-DISC", function="Checker.complain", file=CHK, line=ck.lineno,
            construct="complain does not record the error",
            detail="a complaint must be appended to self.errors", path=[]))
    chk = mem.get("check")
    n += 1
    src = pyfront.unparse(chk) if isinstance(chk, ast.FunctionDef) else ""
    if "self.walk()" not in src or "if self.errors:" not in src or "raise AssertionError" not in src:
        res.findings.add(dict(
            rule="COMPLAIN-DISC", function="Checker.check", file=CHK, line=ck.lineno,
            construct="check() does not raise when errors were recorded",
            detail="check() must walk the whole tree and raise "
                   "AssertionError when any complaint was made", path=[]))
    for v in ("visit_btree", "visit_bucket"):
        m = mem.get(v)
        n += 1
        if not isinstance(m, ast.FunctionDef) or \
                "self.check_sorted(obj, path, keys, lo, hi)" not in pyfront.unparse(m):
            res.findings.add(dict(
                rule="COMPLAIN-DISC", function="Checker.%s" % v, file=CHK, line=ck.lineno,
                construct="%s does not check the node's keys against (lo, hi)" % v,
                detail="both interior nodes and leaves must be checked", path=[]))
    res.count("COMPLAIN-DISC", n)
    # RANGE-PROP: decision table of the bounds pushed for child i
    walk = pyfront.class_members(wk).get("walk")
    if not isinstance(walk, ast.FunctionDef):
        raise AnalysisError("anchor vanished: Walker.walk")
    loops = [f for f in ast.walk(walk) if isinstance(f, ast.For) and any(
        isinstance(c, ast.Call) and pyfront.unparse(c.func) == "stack.append"
        for b in f.body for c in ast.walk(b))]
    if len(loops) != 1:
        raise AnalysisError("unrecognised idiom: child loop of Walker.walk")
    body = loops[0].body
    m = 0
    for first in (True, False):
        for last in (True, False):
            m += 1
            env = {"lo": "lo", "hi": "hi"}

            def ev(e):
                if isinstance(e, ast.Name):
                    if e.id in env:
                        return env[e.id]
                    raise AnalysisError("range-prop: unknown name %s" % e.id)
                if isinstance(e, ast.Constant) and e.value is None:
                    return "None"
                if isinstance(e, ast.Tuple):
                    return tuple(ev(x) for x in e.elts)
                if isinstance(e, ast.Subscript) and pyfront.unparse(e.value) == "keys":
                    return "keys[%s]" % pyfront.unparse(e.slice).replace(" ", "")
                if isinstance(e, ast.IfExp):
                    return ev(e.body) if test(e.test) else ev(e.orelse)
                raise AnalysisError("range-prop: unrecognised expression %s" % pyfront.unparse(e))

            def test(t):
                s = pyfront.unparse(t).replace(" ", "")
                if s in ("i<n-1", "i!=n-1", "n-1>i"):
                    return not last
                if s in ("i>0", "i!=0", "i", "0<i"):
                    return not first
                if s in ("i==0",):
                    return first
                if s in ("i==n-1",):
                    return last
                raise AnalysisError("range-prop: unrecognised test %s" % s)
            pushed = []

            def run(stmts):
                for st in stmts:
                    if isinstance(st, ast.Assign):
                        val = ev(st.value)
                        tg = st.targets[0]
                        if isinstance(tg, ast.Tuple):
                            for a, b in zip(tg.elts, val):
                                env[a.id] = b
                        else:
                            env[tg.id] = val
                    elif isinstance(st, ast.If):
                        run(st.body if test(st.test) else st.orelse)
                    elif isinstance(st, ast.Expr) and isinstance(st.value, ast.Call) and \
                            pyfront.unparse(st.value.func) == "stack.append":
                        tup = st.value.args[0]
                        pushed.append((ev(tup.elts[3]), ev(tup.elts[4])))
                    elif isinstance(st, ast.Expr) and isinstance(st.value, ast.Constant):
                        pass
                    else:
                        raise AnalysisError("range-prop: unrecognised statement %s" % type(st).__name__)
            run(body)
            want = ("lo" if first else "keys[i-1]", "hi" if last else "keys[i]")
            if pushed != [want]:
                res.findings.add(dict(
                    rule="RANGE-PROP", function="Walker.walk", file=CHK, line=loops[0].lineno,
                    construct="child %s%s gets bounds %s (expected %s)" % (
                        "first " if first else "", "last" if last else "inner", pushed, want),
                    detail="the key range handed down to a child must be "
                           "lo' = keys[i-1] if i > 0 else the inherited lo, "
                           "hi' = keys[i] if i < n-1 else the inherited hi; "
                           "otherwise a key moved across an ancestor's "
                           "separator is not detected", path=[]))
    res.count("RANGE-PROP", m)
