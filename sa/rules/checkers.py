"""Diagnostic checkers (C18): CHECK-INVENTORY, CHECK-AGREE, COMPLAIN-DISC,
RANGE-PROP.

Every assertion of the C `_check` (BTree_check_inner) and of the Python
`_Tree._check` is normalised to a predicate atom with a scope; each corruption
class named by the property must be covered by an atom, no assertion may be
weakened by a disjunction, and the two implementations must assert the same
atoms with the same scope.  For BTrees.check: the three comparisons of
check_sorted all reach complain -> errors -> AssertionError, and the key range
handed down to each child is lo' = keys[i-1] if i > 0 else lo,
hi' = keys[i] if i < n-1 else hi (decision table over the two atoms).
"""
import ast
import re

from ..cir import strip, path, callee, text, const_int
from ..common import AnalysisError, SRC
from .. import pyfront

REL = SRC + "/_base.py"
CHK = SRC + "/check.py"

# corruption class -> atoms that must be asserted
REQUIRED = {
    "linking of leaves": ["leaf-next-links", "firstbucket-is-first-leaf",
                          "firstbucket-matches-first-subtree", "recurse-with-successor"],
    "uniformity of child kinds": ["child-kind-uniform"],
    "non-emptiness of nodes": ["child-nonempty:leaf", "child-nonempty:tree",
                               "empty-has-no-firstbucket", "nonempty-has-firstbucket"],
}


def _c_atom(cond, in_tree_branch, in_leaf_branch):
    return _c_atom_text(text(cond).replace(" ", ""), in_tree_branch, in_leaf_branch)


def _c_atom_text(t, in_tree_branch, in_leaf_branch):
    scope = "tree" if in_tree_branch else "leaf" if in_leaf_branch else "self"
    if "||" in t:
        return "WEAKENED:" + t[:80]
    if re.search(r"self->firstbucket==\(void\*\)0", t):
        return "empty-has-no-firstbucket"
    if re.search(r"self->firstbucket!=\(void\*\)0", t):
        return "nonempty-has-firstbucket"
    if re.search(r"self->data\[i\]\.child!=\(void\*\)0", t):
        return "child-nonnull"
    if "Py_TYPE" in t and "child" in t:
        return "child-kind-uniform"
    if re.search(r"child->len>=1", t):
        return "child-nonempty:" + scope
    if re.search(r"self->firstbucket==\(Bucket\*\)self->data\[0\]\.child", t):
        return "firstbucket-is-first-leaf"
    if re.search(r"self->firstbucket==(?:\(BTree\*\))?(?:child|self->data\[0\]\.child)->firstbucket", t):
        return "firstbucket-matches-first-subtree"
    if re.search(r"\(Bucket\*\)child->next==bucketafter", t):
        return "leaf-next-links"
    if "Py_REFCNT" in t or "->size" in t or "len>=0" in t:
        return "memory:" + t[:40]
    return "other:" + t[:60]


_NEG = {"<": ">=", ">=": "<", ">": "<=", "<=": ">", "==": "!=", "!=": "=="}


def _ctext(e, sub, neg=False):
    """canonical text of a condition: locals / parameters replaced through
    `sub` (name -> text), `neg` = the negation is wanted (comparisons flipped,
    De Morgan over && / ||)"""
    e0 = strip(e)
    if e0 is None:
        return ""
    if e0.k == "UnaryOperator" and e0.v == "!":
        return _ctext(e0.kids[0], sub, not neg)
    if e0.k == "BinaryOperator" and e0.v in _NEG:
        op = _NEG[e0.v] if neg else e0.v
        return "(%s%s%s)" % (_ctext(e0.kids[0], sub), op, _ctext(e0.kids[1], sub))
    if e0.k == "BinaryOperator" and e0.v in ("&&", "||"):
        op = {"&&": "||", "||": "&&"}[e0.v] if neg else e0.v
        return "(%s%s%s)" % (_ctext(e0.kids[0], sub, neg), op, _ctext(e0.kids[1], sub, neg))
    if e0.k == "DeclRefExpr" and not isinstance(sub.get(e0.n, ""), str):
        return _ctext(sub[e0.n], dict((k, v) for k, v in sub.items() if k != e0.n), neg)   # a flag: its definition
    t = text(e).replace(" ", "")
    for nm, rep in sub.items():
        if isinstance(rep, str):
            t = re.sub(r"(?<![\w>.])%s\b" % re.escape(nm), rep, t)
    return ("!" + t) if neg else t


def _exits(st):
    """the statement leaves the function / jumps away on every path"""
    x = st
    while x is not None and x.k == "CompoundStmt" and x.kids:
        x = x.kids[-1]
    return x is not None and x.k in ("GotoStmt", "ReturnStmt")


def c_atoms(tu):
    """[(atom, line)] of the C checker.  An assertion is (a) a CHECK(cond, msg)
    of the macro, (b) an `if` whose branch stores a string literal into the
    variable that is reported as the AssertionError and leaves, (c) in a
    helper whose result is stored into that variable, an `if` whose branch
    returns a string literal.  For (b) / (c) the asserted condition is the
    negation of the test; flags (`int bad = child->len < 1`) are replaced by
    their definition and the helper's parameters by the call's arguments."""
    fn = tu.func("BTree_check_inner")
    # the message variable
    msgvar = None
    for c in fn.walk():
        if c.k == "CallExpr" and callee(c) == ("fn", "PyErr_SetString") and len(c.kids) >= 3:
            a = strip(c.kids[2])
            if a is not None and a.k == "DeclRefExpr":
                msgvar = a.n
    # which branch of the child-kind test are we in
    kind_if = parent_list = None
    for blk in fn.walk():
        if blk.k != "CompoundStmt":
            continue
        for n in blk.kids:
            if n.k == "IfStmt" and "Py_TYPE" in text(n.kids[0]) and "data[0]" in text(n.kids[0]) and n.mo != "CHECK":
                kind_if, parent_list = n, blk
    if kind_if is None:
        raise AnalysisError("anchor vanished: child-kind test in BTree_check_inner")
    neg = text(kind_if.kids[0]).replace(" ", "").startswith("!") or "!=" in text(kind_if.kids[0])
    then_nodes = set(id(x) for x in kind_if.kids[1].walk())
    if len(kind_if.kids) > 2 and kind_if.kids[2].k != "Absent":
        else_nodes = set(id(x) for x in kind_if.kids[2].walk())
    elif _exits(kind_if.kids[1]):
        # guard-clause form: what follows the `if` is its other branch
        rest = parent_list.kids[parent_list.kids.index(kind_if) + 1:]
        else_nodes = set(id(x) for st in rest for x in st.walk())
    else:
        raise AnalysisError("anchor vanished: the child-kind test of BTree_check_inner has one branch only")
    tree_nodes, leaf_nodes = (else_nodes, then_nodes) if neg else (then_nodes, else_nodes)

    def flags_of(f2):
        """single-definition int locals defined by a comparison"""
        defs = {}
        for x in f2.walk():
            nm = rhs = None
            if x.k == "VarDecl" and x.kids and x.kids[-1].k != "Absent":
                nm, rhs = x.n, x.kids[-1]
            elif x.k == "BinaryOperator" and x.v == "=":
                l0 = strip(x.kids[0])
                if l0 is not None and l0.k == "DeclRefExpr":
                    nm, rhs = l0.n, x.kids[1]
            if nm:
                defs.setdefault(nm, []).append(rhs)
        out = {}
        for nm, rs in defs.items():
            r0 = strip(rs[0])
            if len(rs) == 1 and r0 is not None and r0.k == "BinaryOperator" and r0.v in _NEG:
                out[nm] = r0
        return out
    # definitions of the variable handed to the recursion (the successor leaf):
    # (line, canonical value, inside a loop)
    rec0 = [c for c in fn.walk() if c.k == "CallExpr" and callee(c) == ("fn", "BTree_check_inner")]
    succvar = path(rec0[0].kids[2]) if rec0 and len(rec0[0].kids) > 2 else None
    in_loop = set()
    for lp in fn.walk():
        if lp.k in ("ForStmt", "WhileStmt") or (lp.k == "DoStmt" and not lp.mo):
            in_loop |= set(id(x) for x in lp.walk())

    def arms(e):
        e0 = strip(e)
        if e0 is not None and e0.k == "ConditionalOperator":
            return arms(e0.kids[1]) + arms(e0.kids[2])
        return [e]
    single = {}
    for x in fn.walk():
        if x.k == "BinaryOperator" and x.v == "=" and strip(x.kids[0]) is not None and strip(x.kids[0]).k == "DeclRefExpr":
            single.setdefault(strip(x.kids[0]).n, []).append(x.kids[1])
        elif x.k == "VarDecl" and x.kids and x.kids[-1].k != "Absent":
            single.setdefault(x.n, []).append(x.kids[-1])
    inline = {nm: re.sub(r"^\([A-Za-z_ ]+\*\)", "", text(rs[0]).replace(" ", ""))
              for nm, rs in single.items() if len(rs) == 1 and nm != succvar}

    def canon(e, sub=None):
        t = text(e).replace(" ", "")
        for nm, rep in list(inline.items()) + list((sub or {}).items()):
            t = re.sub(r"(?<![\w>.])%s\b" % re.escape(nm), rep, t)
        t = re.sub(r"\((?:Bucket|BTree|Sized)\*\)", "", t)
        t = t.replace("self->data[(i+1)]", "data[i+1]").replace("self->data[i+1]", "data[i+1]")
        return t
    def loops_of(f2):
        out = set()
        for lp in f2.walk():
            if lp.k in ("ForStmt", "WhileStmt") or (lp.k == "DoStmt" and not lp.mo):
                out |= set(id(x) for x in lp.walk())
        return out

    def defs_of_var(f2, var, loopset):
        """(line, canonical value, inside a loop) of every definition of var in f2"""
        out = []
        for x in f2.walk():
            if x.k == "BinaryOperator" and x.v == "=" and path(x.kids[0]) == var:
                for a in arms(x.kids[1]):
                    out.append((x.l, canon(a), id(x) in loopset))
            elif x.k == "CallExpr" and callee(x)[0] == "fn" and callee(x)[1] in tu.funcs and \
                    callee(x)[1] != "BTree_check_inner":
                # a helper that stores through an out-parameter bound to &var
                h = callee(x)[1]
                params = [p_.n for p_ in tu.params(h)]
                sub = {}
                outp = None
                for pn, a in zip(params, x.kids[1:]):
                    a0 = strip(a)
                    if a0 is not None and a0.k == "UnaryOperator" and a0.v == "&" and path(a0.kids[0]) == var:
                        outp = pn
                    else:
                        sub[pn] = canon(a)
                if outp:
                    for y in tu.funcs[h].walk():
                        if y.k == "BinaryOperator" and y.v == "=":
                            l0 = strip(y.kids[0])
                            if l0 is not None and l0.k == "UnaryOperator" and l0.v == "*" and path(l0.kids[0]) == outp:
                                t = text(y.kids[1]).replace(" ", "")
                                for nm, rep in sub.items():
                                    t = re.sub(r"(?<![\w>.])%s\b" % re.escape(nm), rep, t)
                                out.append((x.l, re.sub(r"\((?:Bucket|BTree|Sized)\*\)", "", t), id(x) in loopset))
        return out

    def next_compared(f2):
        """locals compared with a leaf's `next` link in f2"""
        out = set()
        for x in f2.walk():
            if x.k == "BinaryOperator" and x.v in ("==", "!="):
                l0, r0 = strip(x.kids[0]), strip(x.kids[1])
                for m_, o_ in ((l0, r0), (r0, l0)):
                    if m_ is not None and m_.k == "MemberExpr" and m_.n == "next" and o_ is not None and \
                            o_.k == "DeclRefExpr" and o_.rk == "VarDecl":
                        out.add(o_.n)
        return out
    succ_defs_at = defs_of_var(fn, succvar, in_loop) if succvar else []
    atoms = []
    atoms_pre = []
    bodies = [(fn, None, {})]
    seen = set(["BTree_check_inner"])
    for c in fn.walk():
        if c.k == "CallExpr" and callee(c)[0] == "fn" and callee(c)[1] in tu.funcs and callee(c)[1] not in seen:
            h = tu.funcs[callee(c)[1]]
            has_check = any(x.k == "IfStmt" and x.mo == "CHECK" for x in h.walk())
            returns_msg = any(x.k == "ReturnStmt" and x.kids and strip(x.kids[0]) is not None and
                              strip(x.kids[0]).k == "StringLiteral" for x in h.walk())
            if not (has_check or returns_msg):
                continue
            seen.add(callee(c)[1])
            if returns_msg:
                # the message must be stored into the reported variable and lead out
                # of the checker whenever it is there - under no further condition
                okflow = False
                for blk in fn.walk():
                    if blk.k != "CompoundStmt":
                        continue
                    for idx, st in enumerate(blk.kids):
                        s0 = strip(st)
                        if s0 is not None and s0.k == "BinaryOperator" and s0.v == "=" and msgvar and \
                                path(s0.kids[0]) == msgvar and strip(s0.kids[1]) is c:
                            for later in blk.kids[idx + 1:]:
                                if any(x.k == "BinaryOperator" and x.v == "=" and path(x.kids[0]) == msgvar
                                       for x in later.walk()) and later.k != "IfStmt":
                                    break
                                if later.k == "IfStmt" and msgvar in text(later.kids[0]):
                                    ct = _ctext(later.kids[0], {})
                                    if ct in ("(%s!=(void*)0)" % msgvar, msgvar, "(%s!=0)" % msgvar) and \
                                            _exits(later.kids[1]):
                                        okflow = True
                                    else:
                                        atoms_pre.append(("WEAKENED:the message of %s leaves the checker only when %s"
                                                          % (callee(c)[1], ct[:60]), later.l))
                                        okflow = None
                                    break
                if okflow is False:
                    atoms_pre.append(("other:the message returned by %s is not reported" % callee(c)[1], c.l))
            scope = "tree" if id(c) in tree_nodes else "leaf" if id(c) in leaf_nodes else None
            sub = {}
            for pd, a in zip(tu.params(callee(c)[1]), c.kids[1:]):
                at = text(a).replace(" ", "")
                if pd.n != at:
                    sub[pd.n] = at
            bodies.append((h, scope, sub))
    for f2, forced, sub in bodies:
        sub = dict(sub)
        sub.update(flags_of(f2))
        for n in f2.walk():
            if n.k != "IfStmt":
                continue
            asserted = None
            sub_here = sub
            if f2 is fn and succvar and id(n) not in in_loop:
                # outside the loops the successor variable stands for its latest definition
                before = [d for d in succ_defs_at if d[0] <= n.l and not d[2]]
                if before:
                    sub_here = dict(sub)
                    sub_here[succvar] = max(before)[1]
            if n.mo == "CHECK":
                c = strip(n.kids[0])
                asserted = _ctext(c, sub_here, neg=True)
            else:
                br = n.kids[1]
                while br.k == "CompoundStmt" and len(br.kids) == 1:
                    br = br.kids[0]
                first = br.kids[0] if br.k == "CompoundStmt" and br.kids else br
                f0 = strip(first)
                is_msg_store = f0 is not None and f0.k == "BinaryOperator" and f0.v == "=" and msgvar and \
                    path(f0.kids[0]) == msgvar and strip(f0.kids[1]) is not None and strip(f0.kids[1]).k == "StringLiteral"
                is_msg_return = first.k == "ReturnStmt" and first.kids and strip(first.kids[0]) is not None and \
                    strip(first.kids[0]).k == "StringLiteral" and f2 is not fn
                if is_msg_store or is_msg_return:
                    asserted = _ctext(n.kids[0], sub, neg=True)
            if asserted is None:
                continue
            in_tree = (forced == "tree") or (forced is None and id(n) in tree_nodes)
            in_leaf = (forced == "leaf") or (forced is None and id(n) in leaf_nodes)
            atoms.append((_c_atom_text(asserted, in_tree, in_leaf), n.l))
    atoms.extend(atoms_pre)
    # recursion with the successor: the values that can reach, inside the
    # loops, the variable handed to the recursion / compared with a leaf's link
    rec = rec0
    succ = set(d[1] for d in succ_defs_at if d[2])
    # the successor a leaf's link is compared with, wherever that is done
    for f2, _forced, _sub in bodies:
        for v in next_compared(f2):
            if f2 is fn and v == succvar:
                continue
            succ |= set(d[1] for d in defs_of_var(f2, v, loops_of(f2)) if d[2])
    succ_defs = sorted(succ)
    if rec and succvar and succ_defs == sorted(["data[i+1].child", "data[i+1].child->firstbucket", "nextbucket"]):
        atoms.append(("recurse-with-successor", rec[0].l))
    else:
        atoms.append(("other:successor %s" % succ_defs, fn.l))
    return atoms


# Python _check: every asserted condition is printed in a canonical form in
# which locals are replaced by what they stand for (data = self._data, a loop
# variable over data = data[j], a pair from zip(data, data[1:]) = data[j],
# data[j+1], child_class = type(data[0].child), ...), so that neither the names
# of locals nor the loop idiom matter.

PY_ATOMS = {
    "self._firstbucket is None": "empty-has-no-firstbucket",
    "self._firstbucket is not None": "nonempty-has-firstbucket",
    "data[j].child is not None": "child-nonnull",
    "type(data[j].child) is type(data[0].child)": "child-kind-uniform",
    "data[j].child.size": "child-nonempty:all",
    "self._firstbucket is data[0].child._firstbucket": "firstbucket-matches-first-subtree",
    "self._firstbucket is data[0].child": "firstbucket-is-first-leaf",
    "data[j].child._next is data[j+1].child": "leaf-next-links:inner",
    "data[-1].child._next is nextbucket": "leaf-next-links:last",
    "False": "child-kind-known",
}
PY_RECURSION = sorted(["data[j].child._check(data[j+1].child._firstbucket)",
                       "data[-1].child._check(nextbucket)"])


class Seq(object):
    def __init__(self, segs):
        self.segs = segs

    def __repr__(self):
        return "<%s>" % " ++ ".join(
            ("%s for j%+d, %+d fewer" % (g[1], g[2], -g[3])) if g[0] == "rng" else g[1] for g in self.segs)

    def length(self):
        b = sum(g[3] if g[0] == "rng" else 1 for g in self.segs)
        k = sum(1 for g in self.segs if g[0] == "rng")
        if k == 1:
            return "n" if b == 0 else "n%+d" % b
        return None


class _Canon(object):
    def __init__(self, fn, members=None):
        self.fn = fn
        self.members = members or {}
        self.depth = 0
        self.env = {}
        self.asserts = []
        self.calls = []
        self.assert_names = set(["self._assert"])
        params = [a.arg for a in fn.args.args]
        if len(params) > 1:
            self.env[params[1]] = "nextbucket"

    def _terms(self, e):
        """canonical value terms (parameters, attribute chains of nodes) an
        expression looks at; the node list itself, kinds and indices excluded"""
        out = set()
        for n in ast.walk(e):
            if isinstance(n, (ast.Attribute, ast.Subscript, ast.Name)):
                t = self.c(n)
                if not isinstance(t, str):
                    continue
                if t in ("data", "self", "type", "len", "isinstance", "self._bucket_type", "j", "True", "False",
                         "None", "self._assert") or t.startswith(("type(", "len(")):
                    continue
                if isinstance(n, ast.Name) and t == n.id and t != "nextbucket":
                    continue            # a plain local (index, flag)
                if t == "nextbucket" or "." in t:
                    out.add(t)
        # drop prefixes of longer chains (data[j].child of data[j].child._next)
        return set(t for t in out if not any(o != t and o.startswith(t) for o in out))

    def idx(self, e):
        if isinstance(e, ast.Constant) and isinstance(e.value, int):
            return str(e.value)
        if isinstance(e, ast.UnaryOp) and isinstance(e.op, ast.USub) and isinstance(e.operand, ast.Constant):
            return "-%d" % e.operand.value
        if isinstance(e, ast.Name):
            v = self.env.get(e.id)
            if isinstance(v, tuple) and v[0] == "idx":
                return "j" if v[1] == 0 else "j%+d" % v[1]
            if v == ("last",):
                return "-1"
        if isinstance(e, ast.BinOp) and isinstance(e.op, (ast.Add, ast.Sub)) and \
                isinstance(e.right, ast.Constant) and isinstance(e.left, ast.Name):
            v = self.env.get(e.left.id)
            if isinstance(v, tuple) and v[0] == "idx":
                k = v[1] + (e.right.value if isinstance(e.op, ast.Add) else -e.right.value)
                return "j" if k == 0 else "j%+d" % k
        return pyfront.unparse(e).replace(" ", "")

    def c(self, e):
        if isinstance(e, ast.Name):
            v = self.env.get(e.id)
            if isinstance(v, str):
                return v
            if isinstance(v, Seq):
                return repr(v)
            if isinstance(v, tuple) and v and v[0] == "idx" and self.members:
                return "j" if v[1] == 0 else "j%+d" % v[1]
            if v == ("last",):
                return "j_last"
            return e.id
        if isinstance(e, ast.Subscript) and not isinstance(e.slice, ast.Slice) and self.members:
            q = self.val(e.value)
            if q is not None:
                return self.elem(q, self.idx(e.slice))
        if isinstance(e, ast.Call) and isinstance(e.func, ast.Name) and e.func.id == "len" and len(e.args) == 1 \
                and self.members:
            q = self.val(e.args[0])
            if q is not None and q.length() is not None:
                return q.length()
        if isinstance(e, ast.BinOp) and isinstance(e.op, (ast.Add, ast.Sub)) and isinstance(e.right, ast.Constant) \
                and isinstance(e.right.value, int) and self.members:
            l = self.c(e.left)
            m = re.match(r"^n([+-]\d+)?$", l)
            if m:
                k = int(m.group(1) or 0) + (e.right.value if isinstance(e.op, ast.Add) else -e.right.value)
                return "n" if k == 0 else "n%+d" % k
        if isinstance(e, ast.IfExp) and self.members:
            d = self.decide(e.test)
            if d is not None:
                return self.c(e.body if d else e.orelse)
        if isinstance(e, ast.Attribute):
            b = self.c(e.value)
            s = "%s.%s" % (b, e.attr)
            return "data" if s == "self._data" else s
        if isinstance(e, ast.Subscript):
            return "%s[%s]" % (self.c(e.value), self.idx(e.slice))
        if isinstance(e, ast.Call):
            return "%s(%s)" % (self.c(e.func), ", ".join(self.c(a) for a in e.args))
        if isinstance(e, ast.Compare) and len(e.ops) == 1:
            op = {ast.Is: "is", ast.IsNot: "is not", ast.Eq: "==", ast.NotEq: "!=", ast.Lt: "<",
                  ast.LtE: "<=", ast.Gt: ">", ast.GtE: ">="}.get(type(e.ops[0]), "?")
            return "%s %s %s" % (self.c(e.left), op, self.c(e.comparators[0]))
        if isinstance(e, ast.BoolOp):
            return (" or " if isinstance(e.op, ast.Or) else " and ").join(self.c(v) for v in e.values)
        if isinstance(e, ast.UnaryOp) and isinstance(e.op, ast.Not):
            return "not %s" % self.c(e.operand)
        if isinstance(e, ast.Constant):
            return repr(e.value)
        return pyfront.unparse(e)

    # ---- sequences of nodes ------------------------------------------------------
    # A list derived from the node's items is a Seq: segments ("rng", template,
    # off, b) - the elements template[j+off] for j in 0 .. n+b-1, n = len(data) -
    # and ("one", text).  `[item.child for item in data]`, slices, append and
    # zip / enumerate over them are followed, so the assertion a loop makes is
    # printed as a statement about data[j], data[j+1], data[-1].

    def val(self, e):
        """the Seq an expression denotes, or None"""
        if isinstance(e, ast.Name):
            v = self.env.get(e.id)
            if isinstance(v, Seq):
                return v
            if v == "data":
                return Seq([("rng", "data[@]", 0, 0)])
            return None
        if isinstance(e, ast.Attribute) and self.c(e) == "data":
            return Seq([("rng", "data[@]", 0, 0)])
        if isinstance(e, ast.Call) and isinstance(e.func, ast.Name) and e.func.id in ("list", "tuple") \
                and len(e.args) == 1:
            return self.val(e.args[0])
        if isinstance(e, ast.ListComp) and len(e.generators) == 1 and not e.generators[0].ifs and \
                isinstance(e.generators[0].target, ast.Name):
            src = self.val(e.generators[0].iter)
            if src is not None and len(src.segs) == 1 and src.segs[0][0] == "rng":
                saved = dict(self.env)
                self.env[e.generators[0].target.id] = src.segs[0][1]
                t = self.c(e.elt)
                self.env = saved
                if "@" in t:
                    return Seq([("rng", t, src.segs[0][2], src.segs[0][3])])
            return None
        if isinstance(e, ast.Subscript) and isinstance(e.slice, ast.Slice) and e.slice.step is None:
            src = self.val(e.value)
            if src is None:
                return None
            lo, hi = e.slice.lower, e.slice.upper
            segs = list(src.segs)
            if lo is not None:
                if not (isinstance(lo, ast.Constant) and isinstance(lo.value, int) and lo.value >= 0
                        and segs[0][0] == "rng"):
                    return None
                k, t, off, b = segs[0]
                segs[0] = (k, t, off + lo.value, b - lo.value)
            if hi is not None:
                if not (isinstance(hi, ast.UnaryOp) and isinstance(hi.op, ast.USub) and
                        isinstance(hi.operand, ast.Constant) and hi.operand.value == 1):
                    return None
                if segs[-1][0] == "one":
                    segs.pop()
                else:
                    k, t, off, b = segs[-1]
                    segs[-1] = (k, t, off, b - 1)
            return Seq(segs)
        if isinstance(e, ast.BinOp) and isinstance(e.op, ast.Add) and isinstance(e.right, ast.List):
            src = self.val(e.left)
            if src is not None:
                return Seq(list(src.segs) + [("one", self.c(x)) for x in e.right.elts])
        return None

    @staticmethod
    def _at(tmpl, off, idxtext):
        """template element at a symbolic / constant position"""
        m = re.match(r"^j([+-]\d+)?$", idxtext)
        if m:
            k = off + int(m.group(1) or 0)
            return tmpl.replace("@", "j" if k == 0 else "j%+d" % k)
        return tmpl.replace("@", str(int(idxtext) + off))

    def elem(self, seq, idxtext):
        first, last_ = seq.segs[0], seq.segs[-1]
        if re.match(r"^j([+-]\d+)?$", idxtext) or re.match(r"^\d+$", idxtext):
            if first[0] == "rng":
                return self._at(first[1], first[2], idxtext)
        if idxtext == "-1":
            if last_[0] == "one":
                return last_[1]
            if last_[2] + last_[3] == 0:
                return last_[1].replace("@", "-1")
        return "%s[%s]" % (seq, idxtext)

    LAST_TESTS = {"j == n-1": True, "n-1 == j": True, "j != n-1": False, "j < n-1": False, "n-1 > j": False,
                  "j >= n-1": True, "-1 == n-1": True, "-1 != n-1": False, "-1 < n-1": False, "-1 >= n-1": True}

    def decide(self, test):
        """truth of a test on the position in a loop that was split into the
        cases 'inner' (j < n-1) and 'last' (j == n-1)"""
        pos = getattr(self, "pos", "any")
        if isinstance(test, ast.UnaryOp) and isinstance(test.op, ast.Not):
            d = self.decide(test.operand)
            return None if d is None else not d
        if pos == "any" or not isinstance(test, ast.Compare):
            return None
        t = self.c(test).replace("j_last", "-1")
        if t in self.LAST_TESTS:
            return self.LAST_TESTS[t] == (pos == "last")
        return None

    def _has_last_test(self, body):
        saved = getattr(self, "pos", "any")
        self.pos = "inner"
        try:
            return any(isinstance(x, ast.Compare) and self.decide(x) is not None
                       for b in body for x in ast.walk(b))
        finally:
            self.pos = saved

    def loop_cases(self, st):
        """[(bindings, position)] - one entry per kind of iteration"""
        target, it = st.target, st.iter
        if isinstance(it, ast.Name) and isinstance(self.env.get(it.id), tuple) and self.env[it.id][0] == "expr":
            it = self.env[it.id][1]

        def names(t):
            return [x.id for x in t.elts] if isinstance(t, ast.Tuple) and all(
                isinstance(x, ast.Name) for x in t.elts) else None

        def split(any_case, last_case):
            saved = dict(self.env)
            self.env.update(any_case)
            sp = self._has_last_test(st.body)
            self.env = saved
            return [(any_case, "inner"), (last_case, "last")] if sp else [(any_case, "any")]
        if isinstance(it, ast.Call):
            f = pyfront.unparse(it.func)
            if f == "range" and isinstance(target, ast.Name):
                # range(len(data) - 1) / range(len(data)): an index over data
                full = len(it.args) == 1 and self.c(it.args[0]) == "n"
                if full:
                    return split({target.id: ("idx", 0)}, {target.id: ("last",)})
                return [({target.id: ("idx", 0)}, "any")]
            if f == "enumerate" and names(target) and len(target.elts) == 2 and it.args:
                seq = self.val(it.args[0])
                i_, x_ = names(target)
                if seq is None:
                    return [({i_: ("idx", 0), x_: "%s[j]" % self.c(it.args[0])}, "any")]
                if len(seq.segs) == 1 and seq.segs[0][3] == 0:
                    return split({i_: ("idx", 0), x_: self.elem(seq, "j")},
                                 {i_: ("last",), x_: self.elem(seq, "-1")})
                return [({i_: ("idx", 0), x_: self.elem(seq, "j")}, "any")]
            if f == "zip" and names(target) and len(target.elts) == len(it.args):
                seqs = [self.val(a) for a in it.args]
                if any(q is None for q in seqs):
                    raise AnalysisError("_check: zip over %s" % pyfront.unparse(it)[:60])
                if all(len(q.segs) == 1 for q in seqs):
                    return [({nm: self.elem(q, "j") for nm, q in zip(names(target), seqs)}, "any")]
                # [rng of n+b] zipped with [rng of n+b-1, one]: the last pair is apart
                lens = []
                for q in seqs:
                    if len(q.segs) == 1 and q.segs[0][0] == "rng":
                        lens.append(q.segs[0][3])
                    elif len(q.segs) == 2 and q.segs[0][0] == "rng" and q.segs[1][0] == "one":
                        lens.append(q.segs[0][3] + 1)
                    else:
                        raise AnalysisError("_check: zip over %s" % pyfront.unparse(it)[:60])
                if len(set(lens)) != 1:
                    raise AnalysisError("_check: zip of sequences of different lengths %s" % pyfront.unparse(it)[:60])
                inner = {nm: self.elem(q, "j") for nm, q in zip(names(target), seqs)}
                last_ = {nm: self.elem(q, "-1") for nm, q in zip(names(target), seqs)}
                return [(inner, "inner"), (last_, "last")]
            raise AnalysisError("_check: loop over %s" % pyfront.unparse(it)[:40])
        if isinstance(target, ast.Name):
            seq = self.val(it)
            if seq is not None:
                if len(seq.segs) == 1:
                    return [({target.id: self.elem(seq, "j")}, "any")]
                if len(seq.segs) == 2 and seq.segs[1][0] == "one":
                    return [({target.id: self.elem(seq, "j")}, "inner"), ({target.id: seq.segs[1][1]}, "last")]
                raise AnalysisError("_check: loop over %s" % pyfront.unparse(it)[:40])
            return [({target.id: "%s[j]" % self.c(it)}, "any")]
        raise AnalysisError("_check: loop over %s" % pyfront.unparse(it)[:40])

    def note_calls(self, node):
        for c in ast.walk(node):
            if isinstance(c, ast.Call):
                fn = pyfront.unparse(c.func)
                if (fn in self.assert_names or self.env.get(fn) == "self._assert") and c.args:
                    txt = self.c(c.args[0])
                    mine = self._terms(c.args[0])
                    shared = set()
                    for g in getattr(self, "guards", []):
                        shared |= (g & mine)
                    if shared:
                        txt = "%s or not asserted at all, depending on %s" % (txt, ", ".join(sorted(shared)))
                    self.asserts.append((txt, c.lineno))
                elif isinstance(c.func, ast.Attribute) and c.func.attr == "_check":
                    self.calls.append(self.c(c))

    def helper(self, call):
        """self.<method>(..) of the node's class that is part of the checker"""
        f = call.func
        if isinstance(f, ast.Attribute) and isinstance(f.value, ast.Name) and f.value.id == "self" and \
                f.attr in self.members and f.attr not in ("_assert", "_check") and not call.keywords and \
                isinstance(self.members[f.attr], ast.FunctionDef) and self.depth < 3:
            h = self.members[f.attr]
            if any((isinstance(x, ast.Call) and pyfront.unparse(x.func) in ("self._assert",)) or
                   (isinstance(x, ast.Attribute) and x.attr in ("_assert", "_check")) for x in ast.walk(h)) and \
                    len(h.args.args) - 1 == len(call.args):
                return h
        return None

    def walk(self, stmts):
        """returns True when the statement list ends in a return on every path"""
        for k, st in enumerate(stmts):
            if isinstance(st, ast.Return):
                if st.value is not None:
                    self.note_calls(st.value)
                return True
            if isinstance(st, ast.Assign) and len(st.targets) == 1 and isinstance(st.targets[0], ast.Name):
                if isinstance(st.value, ast.Call) and pyfront.unparse(st.value.func) in ("zip", "enumerate", "range"):
                    self.env[st.targets[0].id] = ("expr", st.value)
                    continue
                seq = self.val(st.value)
                if seq is not None and not (len(seq.segs) == 1 and seq.segs[0] == ("rng", "data[@]", 0, 0)):
                    self.env[st.targets[0].id] = seq
                    continue
                v = self.c(st.value)
                if v == "self._assert":
                    self.assert_names.add(st.targets[0].id)
                self.env[st.targets[0].id] = v
                continue
            if isinstance(st, ast.Expr) and isinstance(st.value, ast.Call) and \
                    isinstance(st.value.func, ast.Attribute) and st.value.func.attr == "append" and \
                    isinstance(st.value.func.value, ast.Name) and \
                    isinstance(self.env.get(st.value.func.value.id), Seq) and len(st.value.args) == 1:
                nm = st.value.func.value.id
                self.env[nm] = Seq(list(self.env[nm].segs) + [("one", self.c(st.value.args[0]))])
                continue
            if isinstance(st, ast.Expr) and isinstance(st.value, ast.Call) and self.helper(st.value) is not None:
                h = self.helper(st.value)
                saved, saved_names = self.env, set(self.assert_names)
                new = {}
                for p_, a in zip(h.args.args[1:], st.value.args):
                    q = self.val(a)
                    new[p_.arg] = q if q is not None else self.c(a)
                self.env = new
                self.depth += 1
                self.walk(h.body)
                self.depth -= 1
                self.env, self.assert_names = saved, saved_names
                continue
            if isinstance(st, ast.For):
                for upd, pos in self.loop_cases(st):
                    saved, saved_pos = dict(self.env), getattr(self, "pos", "any")
                    self.env.update(upd)
                    self.pos = pos if pos != "any" else saved_pos
                    self.walk(st.body)
                    self.env, self.pos = saved, saved_pos
                continue
            if isinstance(st, ast.If):
                d = self.decide(st.test)
                if d is not None:
                    if self.walk(st.body if d else st.orelse):
                        return True
                    continue
                # the branches of the emptiness and child-kind tests are scopes; any
                # other condition that looks at a value an assertion below it is about
                # (`if nextbucket is not None: assert_(... is nextbucket)`) switches
                # that assertion off for some values: it is recorded as weakened.  A
                # branch that returns guards the rest of the list in the same way.
                self.guards = getattr(self, "guards", []) + [self._terms(st.test)]
                rb = self.walk(st.body)
                ro = self.walk(st.orelse)
                if rb or ro:
                    r = self.walk(stmts[k + 1:])
                    self.guards = self.guards[:-1]
                    return (rb and ro) or r
                self.guards = self.guards[:-1]
                continue
            self.note_calls(st)
        return False


def py_atoms():
    tree = pyfront.base_py()
    t = pyfront.class_members(pyfront.classes(tree)["_Tree"])
    fn = t.get("_check")
    if not isinstance(fn, ast.FunctionDef):
        raise AnalysisError("anchor vanished: _Tree._check")
    cn = _Canon(fn, t)
    cn.walk(fn.body)
    atoms = []
    for text_, line in cn.asserts:
        if " or " in text_:
            atoms.append(("WEAKENED:" + text_[:80], line))
        else:
            atoms.append((PY_ATOMS.get(text_, "other:" + text_[:70]), line))
    if sorted(set(cn.calls)) == PY_RECURSION:
        atoms.append(("recurse-with-successor", fn.lineno))
    else:
        atoms.append(("other:recursion %s" % sorted(set(cn.calls)), fn.lineno))
    # _assert raises AssertionError
    a = t.get("_assert")
    if not isinstance(a, ast.FunctionDef) or not any(
            isinstance(r, ast.Raise) and r.exc is not None and "AssertionError" in pyfront.unparse(r.exc)
            for r in ast.walk(a)):
        atoms.append(("other:_assert does not raise AssertionError", fn.lineno))
    return atoms


def _expand(atoms):
    out = set()
    for a, _ in atoms:
        if a == "child-nonempty:all":
            out |= {"child-nonempty:leaf", "child-nonempty:tree"}
        elif a.startswith("leaf-next-links"):
            out.add(a)
        else:
            out.add(a)
    if {"leaf-next-links:inner", "leaf-next-links:last"} <= out:
        out -= {"leaf-next-links:inner", "leaf-next-links:last"}
        out.add("leaf-next-links")
    return out


def compare(c_atoms_list, py_atoms_list, where_c="BTree_check_inner"):
    findings = []
    cset, pset = _expand(c_atoms_list), _expand(py_atoms_list)
    for name, s, file, fn in (("C", cset, "src/BTrees/BTreeTemplate.c", where_c),
                              ("Python", pset, REL, "_Tree._check")):
        for a in sorted(s):
            if a.startswith("WEAKENED:"):
                findings.append(dict(
                    rule="CHECK-INVENTORY", function=fn, file=file, line=1,
                    construct="assertion weakened by a disjunction: %s" % a[9:],
                    detail="an assertion of %s _check passes whenever an "
                           "alternative holds; the corruption it guards "
                           "against is no longer reported in that case" % name, path=[]))
            if a.startswith("other:"):
                findings.append(dict(
                    rule="CHECK-INVENTORY", function=fn, file=file, line=1,
                    construct="unrecognised assertion %s" % a[6:],
                    detail="an assertion of %s _check is not one of the "
                           "known predicates (changed or new condition)" % name, path=[]))
        for cls, req in REQUIRED.items():
            for a in req:
                if a not in s:
                    findings.append(dict(
                        rule="CHECK-INVENTORY", function=fn, file=file, line=1,
                        construct="%s _check lacks the predicate %s (%s)" % (name, a, cls),
                        detail="corruptions of class '%s' are meant to be "
                               "rejected; the %s _check does not assert %s"
                               % (cls, name, a), path=[]))
    core = lambda s: set(a for a in s if not a.startswith(("memory:", "WEAKENED:", "other:", "child-kind-known")))
    diff = core(cset) ^ core(pset)
    for a in sorted(diff):
        # already reported as lacking on one side?
        if any(a in req for req in REQUIRED.values()):
            continue
        findings.append(dict(
            rule="CHECK-AGREE", function="_check", file="src/BTrees", line=1,
            construct="%s asserted only by %s" % (a, "C" if a in cset else "Python"),
            detail="the two _check implementations assert different "
                   "predicates", path=[]))
    return findings, len(cset) + len(pset)


# ---------------------------------------------------------------------------
# check.py

class _RpReturn(Exception):
    def __init__(self, v):
        self.v = v


def check_py_module(res):
    tree = pyfront.module(CHK)
    cls = pyfront.classes(tree)
    n = 0
    ck = cls.get("Checker")
    wk = cls.get("Walker")
    if ck is None or wk is None:
        raise AnalysisError("anchor vanished: check.Checker / Walker")
    mem = pyfront.class_members(ck)
    cs = mem.get("check_sorted")
    if not isinstance(cs, ast.FunctionDef):
        raise AnalysisError("anchor vanished: Checker.check_sorted")
    # COMPLAIN-DISC: the three comparisons, as truth tables over the sign of
    # the three-way comparison (names and loop idiom do not matter)
    params = [a.arg for a in cs.args.args]
    if len(params) < 6:
        raise AnalysisError("Checker.check_sorted: expected (self, obj, path, keys, lo, hi)")
    keysp, lop, hip = params[3], params[4], params[5]
    cn = _Canon(cs)
    cn.env[keysp] = "keys"
    cn.env[lop] = "lo"
    cn.env[hip] = "hi"
    visits = [False]
    found = {}

    def sign_table(test, cmp_call):
        """truth of `test` for compare(..) in (-1, 0, 1), other conjuncts true"""
        out = []
        for sgn in (-1, 0, 1):
            def ev(t):
                if t is cmp_call:
                    return sgn
                if isinstance(t, ast.BoolOp):
                    vals = [ev(v) for v in t.values]
                    vals = [v for v in vals if v is not None]
                    if isinstance(t.op, ast.And):
                        return all(vals)
                    return any(vals)
                if isinstance(t, ast.UnaryOp) and isinstance(t.op, ast.Not):
                    v = ev(t.operand)
                    return None if v is None else not v
                if isinstance(t, ast.Compare) and len(t.ops) == 1:
                    l, r = ev(t.left), ev(t.comparators[0])
                    if isinstance(l, int) and not isinstance(l, bool) and isinstance(t.comparators[0], ast.Constant):
                        c = t.comparators[0].value
                        return {ast.Lt: l < c, ast.LtE: l <= c, ast.Gt: l > c, ast.GtE: l >= c,
                                ast.Eq: l == c, ast.NotEq: l != c}[type(t.ops[0])]
                    return None          # a guard (lo is not None, i < n - 1): assumed true
                if isinstance(t, ast.Constant):
                    return t.value
                return None
            out.append(bool(ev(test)))
        return tuple(out)

    def scan(stmts):
        for st in stmts:
            if isinstance(st, ast.Assign) and len(st.targets) == 1 and isinstance(st.targets[0], ast.Name):
                if isinstance(st.value, ast.Call) and pyfront.unparse(st.value.func) == "len" and \
                        cn.c(st.value.args[0]) == "keys":
                    cn.env[st.targets[0].id] = "len(keys)"
                else:
                    cn.env[st.targets[0].id] = cn.c(st.value)
            elif isinstance(st, ast.For):
                it = st.iter
                over = None
                if cn.c(it) == "keys":
                    over = "keys"
                    if isinstance(st.target, ast.Name):
                        cn.env[st.target.id] = "keys[j]"
                elif isinstance(it, ast.Call) and pyfront.unparse(it.func) == "enumerate" and cn.c(it.args[0]) == "keys":
                    over = "keys"
                    cn.env[st.target.elts[0].id] = ("idx", 0)
                    cn.env[st.target.elts[1].id] = "keys[j]"
                elif isinstance(it, ast.Call) and pyfront.unparse(it.func) == "range" and len(it.args) == 1 and \
                        cn.c(it.args[0]) in ("len(keys)",):
                    over = "keys"
                    cn.env[st.target.id] = ("idx", 0)
                if over:
                    visits[0] = True
                scan(st.body)
            elif isinstance(st, ast.If):
                complains = any(isinstance(c, ast.Call) and pyfront.unparse(c.func) == "self.complain"
                                for b in st.body for c in ast.walk(b))
                cmps = [c for c in ast.walk(st.test) if isinstance(c, ast.Call) and pyfront.unparse(c.func) == "compare"]
                if complains and len(cmps) == 1:
                    args = tuple(cn.c(a) for a in cmps[0].args)
                    found[args] = sign_table(st.test, cmps[0])
                scan(st.body)
                scan(st.orelse)
            elif isinstance(st, ast.AugAssign):
                pass
    scan(cs.body)
    want = {("lo", "keys[j]"): ((False, False, True), "key below the lower bound"),
            ("keys[j]", "hi"): ((False, True, True), "key at or above the upper bound"),
            ("keys[j]", "keys[j+1]"): ((False, True, True), "keys out of order / duplicate")}
    # an index-counting loop (`i += 1` after `for x in keys`): i stands for j
    for t, (table, what) in want.items():
        n += 1
        got = found.get(t)
        if got is None:
            # manual counter idiom: keys[i + 1] with a counter that is not a loop index
            for k2, v2 in found.items():
                if t[1] == "keys[j+1]" and k2[0] == "keys[j]" and k2[1].startswith("keys[") and k2[1] != "keys[j]":
                    got = v2
        if got != table:
            res.findings.add(dict(
                rule="COMPLAIN-DISC", function="Checker.check_sorted", file=CHK, line=cs.lineno,
                construct="comparison compare(%s, %s): complains for signs %s (required %s)" % (
                    t[0], t[1], got, table),
                detail="check_sorted must report a %s through self.complain: "
                       "with s = compare(%s, %s) the complaint is required "
                       "exactly for s in %s" % (what, t[0], t[1],
                                                [sg for sg, b in zip((-1, 0, 1), table) if b]), path=[]))
    n += 1
    if not visits[0]:
        res.findings.add(dict(
            rule="COMPLAIN-DISC", function="Checker.check_sorted", file=CHK, line=cs.lineno,
            construct="check_sorted does not visit every key",
            detail="every key of the node must be compared", path=[]))
    cp = mem.get("complain")
    n += 1
    if not isinstance(cp, ast.FunctionDef) or "self.errors.append(s)" not in pyfront.unparse(cp):
        res.findings.add(dict(
            rule="COMPLAIN-DISC", function="Checker.complain", file=CHK, line=ck.lineno,
            construct="complain does not record the error",
            detail="a complaint must be appended to self.errors", path=[]))
    chk = mem.get("check")
    n += 1
    src = pyfront.unparse(chk) if isinstance(chk, ast.FunctionDef) else ""
    if "self.walk()" not in src or "if self.errors:" not in src or "raise AssertionError" not in src:
        res.findings.add(dict(
            rule="COMPLAIN-DISC", function="Checker.check", file=CHK, line=ck.lineno,
            construct="check() does not raise when errors were recorded",
            detail="check() must walk the whole tree and raise "
                   "AssertionError when any complaint was made", path=[]))
    for v in ("visit_btree", "visit_bucket"):
        m = mem.get(v)
        n += 1
        if not isinstance(m, ast.FunctionDef) or \
                "self.check_sorted(obj, path, keys, lo, hi)" not in pyfront.unparse(m):
            res.findings.add(dict(
                rule="COMPLAIN-DISC", function="Checker.%s" % v, file=CHK, line=ck.lineno,
                construct="%s does not check the node's keys against (lo, hi)" % v,
                detail="both interior nodes and leaves must be checked", path=[]))
    res.count("COMPLAIN-DISC", n)
    # RANGE-PROP: decision table of the bounds pushed for child i
    walk = pyfront.class_members(wk).get("walk")
    if not isinstance(walk, ast.FunctionDef):
        raise AnalysisError("anchor vanished: Walker.walk")
    modfuncs = pyfront.functions(tree)

    def is_push(c):
        """<list>.append((node, path, parent, lo', hi'))"""
        return isinstance(c, ast.Call) and isinstance(c.func, ast.Attribute) and c.func.attr == "append" and \
            isinstance(c.func.value, ast.Name) and len(c.args) == 1 and isinstance(c.args[0], ast.Tuple) and \
            len(c.args[0].elts) == 5

    def push_loops(fn):
        return [f for f in ast.walk(fn) if isinstance(f, ast.For) and any(
            is_push(c) for b in f.body for c in ast.walk(b))]
    # the roles of walk's locals: (node, path, parent, lo, hi) popped from the
    # stack, (kind, keys, kids) cracked from the node
    roles = {}
    for a in ast.walk(walk):
        if isinstance(a, ast.Assign) and isinstance(a.targets[0], ast.Tuple) and isinstance(a.value, ast.Call) and \
                all(isinstance(x, ast.Name) for x in a.targets[0].elts):
            names = [x.id for x in a.targets[0].elts]
            fnm = pyfront.unparse(a.value.func)
            if fnm.endswith(".pop") and len(names) == 5:
                roles[names[3]], roles[names[4]] = "lo", "hi"
            elif fnm == "crack_btree" and len(names) == 3:
                roles[names[1]], roles[names[2]] = "KEYS", "KIDS"
    if sorted(roles.values()) != ["KEYS", "KIDS", "hi", "lo"]:
        raise AnalysisError("unrecognised idiom: Walker.walk does not pop (node, path, parent, lo, hi) / "
                            "crack_btree into (kind, keys, kids)")
    loops = push_loops(walk)
    loop_fn, loop_roles = walk, dict(roles)
    if not loops:
        # the child loop factored out into a function of the module: the roles
        # of its parameters are those of the arguments at the call in walk
        for c in ast.walk(walk):
            if isinstance(c, ast.Call) and isinstance(c.func, ast.Name) and c.func.id in modfuncs and \
                    push_loops(modfuncs[c.func.id]) and not c.keywords:
                loop_fn = modfuncs[c.func.id]
                loops = push_loops(loop_fn)
                loop_roles = {}
                for p2, a in zip([x.arg for x in loop_fn.args.args], c.args):
                    if isinstance(a, ast.Name) and a.id in roles:
                        loop_roles[p2] = roles[a.id]
                break
    if len(loops) != 1:
        raise AnalysisError("unrecognised idiom: child loop of Walker.walk")
    body = loops[0].body
    # names for the number of children (`n = len(kids)`, `last = len(kids) - 1`)
    # assigned before the loop
    len_alias = {}
    for a in ast.walk(loop_fn):
        if isinstance(a, ast.Assign) and len(a.targets) == 1 and isinstance(a.targets[0], ast.Name) and \
                a.lineno < loops[0].lineno:
            t = pyfront.unparse(a.value).replace(" ", "")
            t = re.sub(r"len\((\w+)\)", lambda m: "n" if loop_roles.get(m.group(1)) == "KIDS" else (
                "n-1" if loop_roles.get(m.group(1)) == "KEYS" else m.group(0)), t)
            t = {"n-1-1": "n-2"}.get(t, t)
            if t in ("n", "n-1"):
                len_alias[a.targets[0].id] = t
    m = 0
    for first in (True, False):
        for last in (True, False):
            m += 1
            env = dict(loop_roles)
            # the loop variable, whatever it is called
            lt = loops[0].target
            li = loops[0].iter
            if isinstance(lt, ast.Name):
                env[lt.id] = "I"
            elif isinstance(lt, ast.Tuple) and isinstance(li, ast.Call) and pyfront.unparse(li.func) == "enumerate" \
                    and len(lt.elts) == 2 and all(isinstance(x, ast.Name) for x in lt.elts):
                env[lt.elts[0].id] = "I"
                env[lt.elts[1].id] = "KID"

            def idx_text(e):
                t = pyfront.unparse(e).replace(" ", "")
                for nm, v in env.items():
                    if v == "I":
                        t = re.sub(r"\b%s\b" % re.escape(nm), "i", t)
                return t

            def ev(e):
                if isinstance(e, ast.Name):
                    if e.id in env:
                        return env[e.id]
                    raise AnalysisError("range-prop: unknown name %s" % e.id)
                if isinstance(e, ast.Call) and isinstance(e.func, ast.Name) and e.func.id in modfuncs:
                    # a helper of the module: its body is interpreted with the
                    # parameters bound to the caller's values
                    fn2 = modfuncs[e.func.id]
                    saved = dict(env)
                    for p2, a in zip([a.arg for a in fn2.args.args], e.args):
                        env[p2] = ev(a)
                    try:
                        run(fn2.body)
                        ret = None
                    except _RpReturn as r:
                        ret = r.v
                    env.clear()
                    env.update(saved)
                    return ret
                if isinstance(e, ast.Subscript) and isinstance(e.value, ast.Name) and env.get(e.value.id) == "KEYS":
                    return "keys[%s]" % idx_text(e.slice)
                if isinstance(e, ast.Constant) and e.value is None:
                    return "None"
                if isinstance(e, ast.Tuple):
                    return tuple(ev(x) for x in e.elts)
                if isinstance(e, ast.Subscript) and pyfront.unparse(e.value) == "keys":
                    return "keys[%s]" % pyfront.unparse(e.slice).replace(" ", "")
                if isinstance(e, ast.IfExp):
                    return ev(e.body) if test(e.test) else ev(e.orelse)
                raise AnalysisError("range-prop: unrecognised expression %s" % pyfront.unparse(e))

            def test(t):
                s = idx_text(t)
                s = re.sub(r"len\((\w+)\)", lambda m: "n" if env.get(m.group(1)) in ("KIDS", "KEYS+1") else m.group(0), s)
                for nm, al in len_alias.items():
                    s = re.sub(r"\b%s\b" % re.escape(nm), al if al == "n" else "(%s)" % al, s)
                s = s.replace("(n-1)-1", "n-2").replace("(n-1)", "n-1")
                if s in ("i<n-1", "i!=n-1", "n-1>i"):
                    return not last
                if s in ("i>0", "i!=0", "i", "0<i"):
                    return not first
                if s in ("i==0", "i<=0", "0>=i", "i<1", "0==i"):
                    return first
                if s in ("i>=1", "1<=i"):
                    return not first
                if s in ("i==n-1", "i>=n-1", "n-1<=i", "n-1==i"):
                    return last
                if s in ("i<n", "n>i", "i<=n-1", "n-1>=i", "i>=0", "0<=i"):
                    return True             # holds for every child index
                raise AnalysisError("range-prop: unrecognised test %s" % s)
            pushed = []

            def run(stmts):
                for st in stmts:
                    if isinstance(st, ast.Assign):
                        val = ev(st.value)
                        tg = st.targets[0]
                        if isinstance(tg, ast.Tuple):
                            for a, b in zip(tg.elts, val):
                                env[a.id] = b
                        else:
                            env[tg.id] = val
                    elif isinstance(st, ast.If):
                        run(st.body if test(st.test) else st.orelse)
                    elif isinstance(st, ast.Expr) and is_push(st.value):
                        tup = st.value.args[0]
                        pushed.append((ev(tup.elts[3]), ev(tup.elts[4])))
                    elif isinstance(st, ast.Expr) and isinstance(st.value, ast.Constant):
                        pass
                    elif isinstance(st, ast.Return):
                        raise _RpReturn(ev(st.value) if st.value is not None else None)
                    else:
                        raise AnalysisError("range-prop: unrecognised statement %s" % type(st).__name__)
            run(body)
            want = ("lo" if first else "keys[i-1]", "hi" if last else "keys[i]")
            if pushed != [want]:
                res.findings.add(dict(
                    rule="RANGE-PROP", function="Walker.walk", file=CHK, line=loops[0].lineno,
                    construct="child %s%s gets bounds %s (expected %s)" % (
                        "first " if first else "", "last" if last else "inner", pushed, want),
                    detail="the key range handed down to a child must be "
                           "lo' = keys[i-1] if i > 0 else the inherited lo, "
                           "hi' = keys[i] if i < n-1 else the inherited hi; "
                           "otherwise a key moved across an ancestor's "
                           "separator is not detected", path=[]))
    res.count("RANGE-PROP", m)
