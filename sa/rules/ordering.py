"""Sorted-map behaviour (C01): NONE-ORD, SEARCH-DEFUSE, SEARCH-BRANCH.

NONE-ORD       the key comparison orders None below everything, decides the
               None cases before any rich comparison, and the default-
               comparison gates accept None (C COMPARE in both macro headers,
               check_argument_cmp; Python compare, _HasDefaultComparison)
SEARCH-DEFUSE  in the leaf mutators the index used to replace / delete /
               insert is the one the search on (container, key) produced
SEARCH-BRANCH  the found branch replaces / deletes, the absent branch inserts
               or raises KeyError (keys stay unique)
"""
import ast

from ..cir import strip, strip_parens, path, callee, text, const_int
from ..cfg import CFG
from ..common import AnalysisError, SRC
from .. import pyfront

REL = SRC + "/_base.py"
NONE_SPEC = {(True, True): 0, (True, False): -1, (False, True): 1}


def _is_none_test(e):
    """operand path if e is `X == Py_None`"""
    e = strip(e)
    if e is not None and e.k == "BinaryOperator" and e.v == "==":
        a, b = e.kids[0], e.kids[1]
        if text(strip(b)) == "&_Py_NoneStruct":
            return path(a) or text(a)
        if text(strip(a)) == "&_Py_NoneStruct":
            return path(b) or text(b)
    return None


def _eval_compare(e, L, R, ln, rn):
    """value of a COMPARE expansion given the None-ness of its operands;
    returns int, or ('rich', description)"""
    e = strip(e)
    if e.k == "ConditionalOperator":
        who = _is_none_test(e.kids[0])
        if who is not None:
            t = ln if who == L else rn if who == R else None
            if t is None:
                raise AnalysisError("NONE-ORD: None test on unknown operand %s" % who)
            return _eval_compare(e.kids[1] if t else e.kids[2], L, R, ln, rn)
        # rich comparison part
        return ("rich", _rich_shape(e, L, R))
    c = const_int(e)
    if c is not None:
        return c
    raise AnalysisError("NONE-ORD: unrecognised COMPARE shape %s" % text(e)[:80])


def _rich_shape(e, L, R):
    """normalised description of the rich-comparison cascade"""
    e = strip(e)
    if e.k == "ConditionalOperator":
        c = strip(e.kids[0])
        if c.k == "BinaryOperator":
            call = strip(c.kids[0])
            if call.k == "CallExpr" and callee(call) == ("fn", "PyObject_RichCompareBool"):
                a = [path(x) or text(x) for x in call.kids[1:3]]
                op = const_int(call.kids[3])
                order = "LR" if a == [L, R] else "RL" if a == [R, L] else "??"
                return "%s(%s)%s%s?%s:%s" % ({0: "LT", 2: "EQ", 4: "GT"}.get(op, op), order, c.v,
                                             const_int(c.kids[1]),
                                             _rich_shape(e.kids[1], L, R), _rich_shape(e.kids[2], L, R))
    c = const_int(e)
    if c is not None:
        return str(c)
    return "?" + text(e)[:30]


RICH_SPEC = "LT(LR)!=0?-1:EQ(LR)>0?0:1"


def none_order_c(tu):
    """COMPARE expansions of the TU, one per spelling header."""
    findings = []
    seen = {}
    for name in tu.order:
        fn = tu.funcs[name]
        for n in fn.walk():
            # the top of a COMPARE expansion: a ConditionalOperator whose
            # condition is a None test and which is spelled in a COMPARE body
            if n.k == "ConditionalOperator" and _is_none_test(n.kids[0]) is not None:
                # skip inner ones
                spelled = None
                for x in n.walk():
                    if x.mi == "COMPARE" and x.sf:
                        spelled = x.sf
                        break
                if spelled is None:
                    continue
                inner = _is_none_test(strip(n.kids[1]).kids[0]) if strip(n.kids[1]).k == "ConditionalOperator" else None
                if inner is None:
                    continue       # an inner level of the cascade
                if spelled in seen:
                    continue
                L = _is_none_test(n.kids[0])
                R = inner
                seen[spelled] = (name, n, L, R)
    n_checked = 0
    for spelled, (name, node, L, R) in sorted(seen.items()):
        for ln, rn in ((True, True), (True, False), (False, True), (False, False)):
            n_checked += 1
            v = _eval_compare(node, L, R, ln, rn)
            if (ln, rn) in NONE_SPEC:
                if v != NONE_SPEC[(ln, rn)]:
                    findings.append(dict(
                        rule="NONE-ORD", function="(macro) COMPARE", file=spelled, line=node.sl or 1,
                        construct="COMPARE(%s, %s) gives %s (None must be the smallest key: %s)" % (
                            "None" if ln else "x", "None" if rn else "y", v, NONE_SPEC[(ln, rn)]),
                        detail="the comparison macro of %s orders None "
                               "incorrectly" % spelled, path=[]))
            else:
                if not (isinstance(v, tuple) and v[1] == RICH_SPEC):
                    findings.append(dict(
                        rule="NONE-ORD", function="(macro) COMPARE", file=spelled, line=node.sl or 1,
                        construct="rich comparison cascade is %s (expected %s)" % (
                            v[1] if isinstance(v, tuple) else v, RICH_SPEC),
                        detail="for two non-None keys COMPARE must be -1 if "
                               "lhs < rhs, 0 if lhs == rhs, else 1, comparing "
                               "(lhs, rhs) in this order", path=[]))
    # the default-comparison gate accepts None before looking at tp_richcompare
    if "check_argument_cmp" in tu.funcs:
        fn = tu.func("check_argument_cmp")
        cfg = CFG(fn)
        ok = False
        for nd in cfg.live_nodes():
            if nd.kind == "branch" and _is_none_test(nd.e) == "arg":
                t = [s for l, s in nd.succ if l == "T"]
                if t and t[0].kind == "return" and const_int(t[0].e) == 1 and \
                        all(nd.id in cfg.dominators()[x.id] for x in cfg.live_nodes()
                            if x.e is not None and "tp_richcompare" in text(x.e)):
                    ok = True
        n_checked += 1
        if not ok:
            findings.append(dict(
                rule="NONE-ORD", function="check_argument_cmp", file=fn.f, line=fn.l,
                construct="None is not accepted before the default-comparison test",
                detail="None must be usable as a key (it is the smallest "
                       "key); check_argument_cmp must return 1 for None "
                       "before inspecting tp_richcompare", path=[]))
    return dict(findings=findings, n=n_checked, headers=sorted(seen))


def none_order_py(res):
    tree = pyfront.module(SRC + "/_compat.py")
    fn = pyfront.functions(tree).get("compare")
    if fn is None:
        raise AnalysisError("anchor vanished: _compat.compare")
    a, b = [p.arg for p in fn.args.args]
    n = 0
    for an, bn in ((True, True), (True, False), (False, True), (False, False)):
        n += 1

        def test(t):
            s = pyfront.unparse(t)
            if s == "%s is None" % a:
                return an
            if s == "%s is None" % b:
                return bn
            if s == "%s is not None" % a:
                return not an
            if s == "%s is not None" % b:
                return not bn
            raise AnalysisError("NONE-ORD (py): test %s" % s)

        def run(stmts):
            for st in stmts:
                if isinstance(st, ast.If):
                    r = run(st.body if test(st.test) else st.orelse)
                    if r is not None:
                        return r
                elif isinstance(st, ast.Return):
                    v = st.value
                    if isinstance(v, ast.Constant):
                        return v.value
                    if isinstance(v, ast.UnaryOp) and isinstance(v.op, ast.USub) and \
                            isinstance(v.operand, ast.Constant):
                        return -v.operand.value
                    return ("rich", pyfront.unparse(v).replace(" ", ""))
                elif isinstance(st, ast.Expr):
                    continue
                else:
                    raise AnalysisError("NONE-ORD (py): statement %s" % type(st).__name__)
            return None
        v = run(fn.body)
        if (an, bn) in NONE_SPEC:
            if v != NONE_SPEC[(an, bn)]:
                res.findings.add(dict(
                    rule="NONE-ORD", function="compare", file=SRC + "/_compat.py", line=fn.lineno,
                    construct="compare(%s, %s) gives %s (expected %s)" % (
                        "None" if an else "x", "None" if bn else "y", v, NONE_SPEC[(an, bn)]),
                    detail="None must compare as the smallest key", path=[]))
        else:
            want = ("(%s>%s)-(%s>%s)" % (a, b, b, a), "(%s>%s)-(%s<%s)" % (a, b, a, b))
            if not (isinstance(v, tuple) and v[1] in want):
                res.findings.add(dict(
                    rule="NONE-ORD", function="compare", file=SRC + "/_compat.py", line=fn.lineno,
                    construct="non-None comparison is %s" % (v[1] if isinstance(v, tuple) else v),
                    detail="for two non-None keys compare must be the sign of x ? y", path=[]))
    # the Python gate: None first
    dt = pyfront.module(SRC + "/_datatypes.py")
    hd = pyfront.classes(dt).get("_HasDefaultComparison")
    if hd is None:
        raise AnalysisError("anchor vanished: _HasDefaultComparison")
    hooks = [f for f in ast.walk(hd) if isinstance(f, ast.FunctionDef) and f.name == "__subclasshook__"]
    for h in hooks:
        n += 1
        first = h.body[0]
        ok = isinstance(first, ast.If) and pyfront.unparse(first.test) == "C is _NoneType" and \
            isinstance(first.body[0], ast.Return) and pyfront.unparse(first.body[0].value) == "False"
        if not ok:
            res.findings.add(dict(
                rule="NONE-ORD", function="_HasDefaultComparison.__subclasshook__",
                file=SRC + "/_datatypes.py", line=h.lineno,
                construct="None is not exempted first",
                detail="None must be accepted as an object key", path=[]))
    res.count("PY-NONE-ORD", n)


# ---------------------------------------------------------------------------
# SEARCH-DEFUSE / SEARCH-BRANCH

def search_c(tu):
    findings = []
    n = 0
    fn = tu.func("_bucket_set")
    # every definition of i in _bucket_set comes from the search expansion
    for a in fn.walk():
        lhs = None
        if a.k == "BinaryOperator" and a.v == "=":
            lhs = path(a.kids[0])
        elif a.k in ("UnaryOperator",) and a.v in ("++", "--", "post++", "post--"):
            lhs = path(a.kids[0])
        elif a.k == "CompoundAssignOperator":
            lhs = path(a.kids[0])
        if lhs in ("i", "cmp"):
            n += 1
            if a.mo != "BUCKET_SEARCH":
                findings.append(dict(
                    rule="SEARCH-DEFUSE", function="_bucket_set", file=a.f, line=a.l,
                    construct="%s redefined outside the search: %s" % (lhs, text(a)[:50]),
                    detail="the slot index used by the insert / replace / "
                           "delete code must be the one the binary search on "
                           "(bucket, key) produced", path=[]))
    # the search is on (self, key)
    srch = [x for x in fn.walk() if x.mo == "BUCKET_SEARCH" and x.k == "MemberExpr" and x.n == "keys"]
    if not srch:
        raise AnalysisError("anchor vanished: BUCKET_SEARCH in _bucket_set")
    n += 1
    if any(path(x.kids[0]) != "self" for x in srch):
        findings.append(dict(
            rule="SEARCH-DEFUSE", function="_bucket_set", file=fn.f, line=fn.l,
            construct="search runs on %s" % sorted(set(path(x.kids[0]) for x in srch)),
            detail="the search must run on the bucket being modified", path=[]))
    # branch structure: len-- only when found, len++ only when absent
    cfg = CFG(fn)
    dom = cfg.dominators()
    found_branch = None
    for nd in cfg.live_nodes():
        if nd.kind == "branch" and nd.e is not None:
            e = strip(nd.e)
            if e.k == "BinaryOperator" and e.v == "==" and path(e.kids[0]) == "cmp" and \
                    const_int(e.kids[1]) == 0 and e.mo != "BUCKET_SEARCH":
                found_branch = nd
    if found_branch is None:
        raise AnalysisError("anchor vanished: `cmp == 0` test in _bucket_set")

    def side(nd):
        """'T' / 'F' : on which side of the found test the node lies"""
        t = [s for l, s in found_branch.succ if l == "T"][0]
        f = [s for l, s in found_branch.succ if l == "F"][0]

        def reach(start):
            seen, st = set(), [start]
            while st:
                q = st.pop()
                if q.id in seen:
                    continue
                seen.add(q.id)
                st.extend(s for _, s in q.succ)
            return seen
        rt, rf = reach(t), reach(f)
        if nd.id in rt and nd.id not in rf:
            return "T"
        if nd.id in rf and nd.id not in rt:
            return "F"
        return "?"
    for nd in cfg.live_nodes():
        if nd.e is None:
            continue
        for x in nd.e.walk():
            if x.k == "UnaryOperator" and path(x.kids[0]) == "self->len" and x.v in ("post--", "--", "post++", "++"):
                n += 1
                want = "T" if "-" in x.v else "F"
                if side(nd) != want:
                    findings.append(dict(
                        rule="SEARCH-BRANCH", function="_bucket_set", file=x.f, line=x.l,
                        construct="self->len%s on the %s side of `cmp == 0`" % (x.v[-2:], side(nd)),
                        detail="a key is removed only when the search found "
                               "it and added only when it is absent (keys "
                               "stay unique)", path=[]))
            if x.k == "CallExpr" and callee(x) == ("fn", "PyErr_SetObject") and \
                    "PyExc_KeyError" in text(x):
                n += 1
                if side(nd) != "F":
                    findings.append(dict(
                        rule="SEARCH-BRANCH", function="_bucket_set", file=x.f, line=x.l,
                        construct="KeyError raised on the %s side of `cmp == 0`" % side(nd),
                        detail="KeyError is for deleting an absent key", path=[]))
    return dict(findings=findings, n=n)


def search_py(res):
    tree = pyfront.base_py()
    cls = pyfront.classes(tree)
    n = 0
    for cname, methods in (("Bucket", ("_set", "_del")), ("Set", ("_set", "_del"))):
        mem = pyfront.class_members(cls[cname])
        for m in methods:
            fn = mem.get(m)
            if not isinstance(fn, ast.FunctionDef):
                raise AnalysisError("anchor vanished: %s.%s" % (cname, m))
            where = "%s.%s" % (cname, m)
            first = fn.body[1] if isinstance(fn.body[0], ast.Expr) else fn.body[0]
            n += 1
            if not (isinstance(first, ast.Assign) and pyfront.unparse(first.targets[0]) == "index" and
                    pyfront.unparse(first.value) == "self._search(key)"):
                res.findings.add(dict(
                    rule="SEARCH-DEFUSE", function=where, file=REL, line=fn.lineno,
                    construct="index is not self._search(key)",
                    detail="the slot index must come from the search on "
                           "(self, key)", path=[]))
                continue
            ifs = [s for s in fn.body if isinstance(s, ast.If)]
            if not ifs:
                raise AnalysisError("unrecognised idiom: %s" % where)
            top = ifs[0]
            test = pyfront.unparse(top.test)
            found_body, absent_body = (top.body, top.orelse) if test == "index >= 0" else \
                (top.orelse, top.body) if test == "index < 0" else (None, None)
            if found_body is None:
                raise AnalysisError("unrecognised idiom: found test of %s" % where)
            rest = [s for s in fn.body[fn.body.index(top) + 1:]]
            absent_all = list(absent_body) + (rest if any(isinstance(x, ast.Return) or isinstance(x, ast.Raise)
                                                          for b in found_body for x in ast.walk(b)) else [])

            def has(body, pred):
                return any(pred(x) for b in body for x in ast.walk(b))
            ins = lambda x: isinstance(x, ast.Call) and isinstance(x.func, ast.Attribute) and \
                x.func.attr == "insert" and "_keys" in pyfront.unparse(x.func.value)
            dele = lambda x: isinstance(x, ast.Delete) and "_keys[index]" in pyfront.unparse(x)
            n += 1
            if has(found_body, ins) or (m == "_set" and not has(absent_all, ins)):
                res.findings.add(dict(
                    rule="SEARCH-BRANCH", function=where, file=REL, line=top.lineno,
                    construct="key insertion is not confined to the absent branch",
                    detail="a key is inserted only when the search did not "
                           "find it (keys stay unique)", path=[]))
            if m == "_del":
                n += 1
                if not has(found_body, dele) or has(absent_all, dele) or \
                        not has(absent_all, lambda x: isinstance(x, ast.Raise) and "KeyError" in pyfront.unparse(x)):
                    res.findings.add(dict(
                        rule="SEARCH-BRANCH", function=where, file=REL, line=top.lineno,
                        construct="deletion / KeyError not on the right branches",
                        detail="the found branch deletes keys[index]; the "
                               "absent branch raises KeyError", path=[]))
            # absent insert index is -index - 1
            if m == "_set":
                n += 1
                conv = [pyfront.unparse(a.value).replace(" ", "") for b in absent_all for a in ast.walk(b)
                        if isinstance(a, ast.Assign) and pyfront.unparse(a.targets[0]) == "index"]
                if conv != ["-index-1"]:
                    res.findings.add(dict(
                        rule="SEARCH-DEFUSE", function=where, file=REL, line=top.lineno,
                        construct="insertion index is %s (expected -index - 1)" % conv,
                        detail="_search returns -(insertion index) - 1 for an "
                               "absent key", path=[]))
    # _search contract: found -> i ; absent -> -1 - low
    sfn = pyfront.class_members(cls["_BucketBase"]).get("_search")
    n += 1
    rets = [pyfront.unparse(r.value).replace(" ", "") for r in ast.walk(sfn) if isinstance(r, ast.Return)]
    if sorted(rets) != sorted(["i", "-1-low"]):
        res.findings.add(dict(
            rule="SEARCH-DEFUSE", function="_BucketBase._search", file=REL, line=sfn.lineno,
            construct="_search returns %s" % rets,
            detail="_search must return the index when found and "
                   "-(insertion index) - 1 otherwise", path=[]))
    # binary search body: low = i + 1 when keys[i] < key else high = i
    src = pyfront.unparse(sfn).replace(" ", "")
    n += 1
    if "ifcompare(k,key)<0:\nlow=i+1\nelse:\nhigh=i" not in src.replace("    ", ""):
        res.findings.add(dict(
            rule="SEARCH-DEFUSE", function="_BucketBase._search", file=REL, line=sfn.lineno,
            construct="bisection step changed",
            detail="bisection must move low past i when keys[i] < key and "
                   "otherwise pull high down to i", path=[]))
    res.count("PY-SEARCH", n)
