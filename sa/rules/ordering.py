"""Sorted-map behaviour (C01): NONE-ORD, SEARCH-DEFUSE, SEARCH-BRANCH.

NONE-ORD       the key comparison orders None below everything, decides the
               None cases before any rich comparison, and the default-
               comparison gates accept None (C COMPARE in both macro headers,
               check_argument_cmp; Python compare, _HasDefaultComparison)
SEARCH-DEFUSE  in the leaf mutators the index used to replace / delete /
               insert is the one the search on (container, key) produced
SEARCH-BRANCH  the found branch replaces / deletes, the absent branch inserts
               or raises KeyError (keys stay unique)
"""
import ast

from ..cir import strip, strip_parens, path, callee, text, const_int
from ..cfg import CFG
from ..flow import Analysis, sget, sset, sdel
from ..common import AnalysisError, SRC
from .. import pyfront

REL = SRC + "/_base.py"
NONE_SPEC = {(True, True): 0, (True, False): -1, (False, True): 1}


def _is_none_test(e):
    """operand path if e is `X == Py_None`"""
    e = strip(e)
    if e is not None and e.k == "BinaryOperator" and e.v == "==":
        a, b = e.kids[0], e.kids[1]
        if text(strip(b)) == "&_Py_NoneStruct":
            return path(a) or text(a)
        if text(strip(a)) == "&_Py_NoneStruct":
            return path(b) or text(b)
    return None


def _eval_compare(e, L, R, ln, rn):
    """value of a COMPARE expansion given the None-ness of its operands;
    returns int, or ('rich', description)"""
    e = strip(e)
    if e.k == "ConditionalOperator":
        who = _is_none_test(e.kids[0])
        if who is not None:
            t = ln if who == L else rn if who == R else None
            if t is None:
                raise AnalysisError("NONE-ORD: None test on unknown operand %s" % who)
            return _eval_compare(e.kids[1] if t else e.kids[2], L, R, ln, rn)
        # rich comparison part
        return ("rich", _rich_shape(e, L, R))
    c = const_int(e)
    if c is not None:
        return c
    raise AnalysisError("NONE-ORD: unrecognised COMPARE shape %s" % text(e)[:80])


def _rich_shape(e, L, R):
    """normalised description of the rich-comparison cascade"""
    e = strip(e)
    if e.k == "ConditionalOperator":
        c = strip(e.kids[0])
        if c.k == "BinaryOperator":
            call = strip(c.kids[0])
            if call.k == "CallExpr" and callee(call) == ("fn", "PyObject_RichCompareBool"):
                a = [path(x) or text(x) for x in call.kids[1:3]]
                op = const_int(call.kids[3])
                order = "LR" if a == [L, R] else "RL" if a == [R, L] else "??"
                return "%s(%s)%s%s?%s:%s" % ({0: "LT", 2: "EQ", 4: "GT"}.get(op, op), order, c.v,
                                             const_int(c.kids[1]),
                                             _rich_shape(e.kids[1], L, R), _rich_shape(e.kids[2], L, R))
    c = const_int(e)
    if c is not None:
        return str(c)
    return "?" + text(e)[:30]


RICH_SPEC = "LT(LR)!=0?-1:EQ(LR)>0?0:1"


def none_order_c(tu):
    """COMPARE expansions of the TU, one per spelling header."""
    findings = []
    seen = {}
    for name in tu.order:
        fn = tu.funcs[name]
        for n in fn.walk():
            # the top of a COMPARE expansion: a ConditionalOperator whose
            # condition is a None test and which is spelled in a COMPARE body
            if n.k == "ConditionalOperator" and _is_none_test(n.kids[0]) is not None:
                # skip inner ones
                spelled = None
                for x in n.walk():
                    if x.mi == "COMPARE" and x.sf:
                        spelled = x.sf
                        break
                if spelled is None:
                    continue
                inner = _is_none_test(strip(n.kids[1]).kids[0]) if strip(n.kids[1]).k == "ConditionalOperator" else None
                if inner is None:
                    continue       # an inner level of the cascade
                if spelled in seen:
                    continue
                L = _is_none_test(n.kids[0])
                R = inner
                seen[spelled] = (name, n, L, R)
    n_checked = 0
    for spelled, (name, node, L, R) in sorted(seen.items()):
        for ln, rn in ((True, True), (True, False), (False, True), (False, False)):
            n_checked += 1
            v = _eval_compare(node, L, R, ln, rn)
            if (ln, rn) in NONE_SPEC:
                if v != NONE_SPEC[(ln, rn)]:
                    findings.append(dict(
                        rule="NONE-ORD", function="(macro) COMPARE", file=spelled, line=node.sl or 1,
                        construct="COMPARE(%s, %s) gives %s (None must be the smallest key: %s)" % (
                            "None" if ln else "x", "None" if rn else "y", v, NONE_SPEC[(ln, rn)]),
                        detail="the comparison macro of %s orders None "
                               "incorrectly" % spelled, path=[]))
            else:
                if not (isinstance(v, tuple) and v[1] == RICH_SPEC):
                    findings.append(dict(
                        rule="NONE-ORD", function="(macro) COMPARE", file=spelled, line=node.sl or 1,
                        construct="rich comparison cascade is %s (expected %s)" % (
                            v[1] if isinstance(v, tuple) else v, RICH_SPEC),
                        detail="for two non-None keys COMPARE must be -1 if "
                               "lhs < rhs, 0 if lhs == rhs, else 1, comparing "
                               "(lhs, rhs) in this order", path=[]))
    # the default-comparison gate accepts None before looking at tp_richcompare
    if "check_argument_cmp" in tu.funcs:
        fn = tu.func("check_argument_cmp")
        cfg = CFG(fn)
        ok = False
        for nd in cfg.live_nodes():
            if nd.kind == "branch" and _is_none_test(nd.e) == "arg":
                t = [s for l, s in nd.succ if l == "T"]
                if t and t[0].kind == "return" and const_int(t[0].e) == 1 and \
                        all(nd.id in cfg.dominators()[x.id] for x in cfg.live_nodes()
                            if x.e is not None and "tp_richcompare" in text(x.e)):
                    ok = True
        n_checked += 1
        if not ok:
            findings.append(dict(
                rule="NONE-ORD", function="check_argument_cmp", file=fn.f, line=fn.l,
                construct="None is not accepted before the default-comparison test",
                detail="None must be usable as a key (it is the smallest "
                       "key); check_argument_cmp must return 1 for None "
                       "before inspecting tp_richcompare", path=[]))
    return dict(findings=findings, n=n_checked, headers=sorted(seen))


def none_order_py(res):
    tree = pyfront.module(SRC + "/_compat.py")
    fn = pyfront.functions(tree).get("compare")
    if fn is None:
        raise AnalysisError("anchor vanished: _compat.compare")
    a, b = [p.arg for p in fn.args.args]
    n = 0
    for an, bn in ((True, True), (True, False), (False, True), (False, False)):
        n += 1

        def test(t):
            s = pyfront.unparse(t)
            if s == "%s is None" % a:
                return an
            if s == "%s is None" % b:
                return bn
            if s == "%s is not None" % a:
                return not an
            if s == "%s is not None" % b:
                return not bn
            raise AnalysisError("NONE-ORD (py): test %s" % s)

        def run(stmts):
            for st in stmts:
                if isinstance(st, ast.If):
                    r = run(st.body if test(st.test) else st.orelse)
                    if r is not None:
                        return r
                elif isinstance(st, ast.Return):
                    v = st.value
                    if isinstance(v, ast.Constant):
                        return v.value
                    if isinstance(v, ast.UnaryOp) and isinstance(v.op, ast.USub) and \
                            isinstance(v.operand, ast.Constant):
                        return -v.operand.value
                    return ("rich", pyfront.unparse(v).replace(" ", ""))
                elif isinstance(st, ast.Expr):
                    continue
                else:
                    raise AnalysisError("NONE-ORD (py): statement %s" % type(st).__name__)
            return None
        v = run(fn.body)
        if (an, bn) in NONE_SPEC:
            if v != NONE_SPEC[(an, bn)]:
                res.findings.add(dict(
                    rule="NONE-ORD", function="compare", file=SRC + "/_compat.py", line=fn.lineno,
                    construct="compare(%s, %s) gives %s (expected %s)" % (
                        "None" if an else "x", "None" if bn else "y", v, NONE_SPEC[(an, bn)]),
                    detail="None must compare as the smallest key", path=[]))
        else:
            want = ("(%s>%s)-(%s>%s)" % (a, b, b, a), "(%s>%s)-(%s<%s)" % (a, b, a, b))
            if not (isinstance(v, tuple) and v[1] in want):
                res.findings.add(dict(
                    rule="NONE-ORD", function="compare", file=SRC + "/_compat.py", line=fn.lineno,
                    construct="non-None comparison is %s" % (v[1] if isinstance(v, tuple) else v),
                    detail="for two non-None keys compare must be the sign of x ? y", path=[]))
    # the Python gate: None first
    dt = pyfront.module(SRC + "/_datatypes.py")
    hd = pyfront.classes(dt).get("_HasDefaultComparison")
    if hd is None:
        raise AnalysisError("anchor vanished: _HasDefaultComparison")
    hooks = [f for f in ast.walk(hd) if isinstance(f, ast.FunctionDef) and f.name == "__subclasshook__"]
    for h in hooks:
        n += 1
        first = h.body[0]
        ok = isinstance(first, ast.If) and pyfront.unparse(first.test) == "C is _NoneType" and \
            isinstance(first.body[0], ast.Return) and pyfront.unparse(first.body[0].value) == "False"
        if not ok:
            res.findings.add(dict(
                rule="NONE-ORD", function="_HasDefaultComparison.__subclasshook__",
                file=SRC + "/_datatypes.py", line=h.lineno,
                construct="None is not exempted first",
                detail="None must be accepted as an object key", path=[]))
    res.count("PY-NONE-ORD", n)


# ---------------------------------------------------------------------------
# SEARCH-DEFUSE / SEARCH-BRANCH

def search_c(tu):
    findings = []
    n = 0
    fn = tu.func("_bucket_set")
    # every definition of i in _bucket_set comes from the search expansion
    for a in fn.walk():
        lhs = None
        if a.k == "BinaryOperator" and a.v == "=":
            lhs = path(a.kids[0])
        elif a.k in ("UnaryOperator",) and a.v in ("++", "--", "post++", "post--"):
            lhs = path(a.kids[0])
        elif a.k == "CompoundAssignOperator":
            lhs = path(a.kids[0])
        if lhs in ("i", "cmp"):
            n += 1
            if a.mo != "BUCKET_SEARCH":
                findings.append(dict(
                    rule="SEARCH-DEFUSE", function="_bucket_set", file=a.f, line=a.l,
                    construct="%s redefined outside the search: %s" % (lhs, text(a)[:50]),
                    detail="the slot index used by the insert / replace / "
                           "delete code must be the one the binary search on "
                           "(bucket, key) produced", path=[]))
    # the search is on (self, key)
    srch = [x for x in fn.walk() if x.mo == "BUCKET_SEARCH" and x.k == "MemberExpr" and x.n == "keys"]
    if not srch:
        raise AnalysisError("anchor vanished: BUCKET_SEARCH in _bucket_set")
    n += 1
    if any(path(x.kids[0]) != "self" for x in srch):
        findings.append(dict(
            rule="SEARCH-DEFUSE", function="_bucket_set", file=fn.f, line=fn.l,
            construct="search runs on %s" % sorted(set(path(x.kids[0]) for x in srch)),
            detail="the search must run on the bucket being modified", path=[]))
    # branch structure: len-- only when found, len++ only when absent.  Path rule:
    # the fact "found" / "absent" is established on the edges of every test of the
    # search's comparison result against 0 - written out or through a local that
    # names it (`present = cmp == 0`) - and required at the mutation.
    cfg = CFG(fn)
    cmpvars = set()
    for a in fn.walk():
        if a.k == "BinaryOperator" and a.v == "=" and a.mo == "BUCKET_SEARCH":
            l = strip(a.kids[0])
            if l is not None and l.k == "DeclRefExpr" and l.n != "i" and (l.t or "").strip() == "int":
                cmpvars.add(l.n)
    cmpvars.add("cmp")

    def cmp_test(e):
        """'eq' / 'ne' when e is (cmpvar == 0) / (cmpvar != 0), else None"""
        e = strip(e)
        if e is not None and e.k == "BinaryOperator" and e.v in ("==", "!=") and const_int(e.kids[1]) == 0 \
                and path(e.kids[0]) in cmpvars and e.mo != "BUCKET_SEARCH":
            return "eq" if e.v == "==" else "ne"
        return None

    class _Found(Analysis):
        def __init__(self, cfg, tu):
            Analysis.__init__(self, cfg, tu)
            self.tests = 0
            self.checks = []

        def on_node(self, node, st):
            e = node.e
            if e is None:
                return [st]
            for x in e.walk():
                lhs = rhs = None
                if x.k == "BinaryOperator" and x.v == "=":
                    l = strip(x.kids[0])
                    if l is not None and l.k == "DeclRefExpr":
                        lhs, rhs = l.n, x.kids[1]
                elif x.k == "VarDecl" and x.kids and x.kids[-1].k != "Absent":
                    lhs, rhs = x.n, x.kids[-1]
                if lhs is not None and lhs not in cmpvars:
                    t = cmp_test(rhs)
                    st = sset(st, "nm:" + lhs, t) if t else sdel(st, "nm:" + lhs)
            if node.kind != "branch":
                for x in e.walk():
                    if x.k == "UnaryOperator" and path(x.kids[0]) == "self->len" and \
                            x.v in ("post--", "--", "post++", "++"):
                        self.checks.append((x, "found" if "-" in x.v else "absent", sget(st, "f"), "self->len" + x.v[-2:]))
                    if x.k == "CallExpr" and callee(x) == ("fn", "PyErr_SetObject") and "PyExc_KeyError" in text(x):
                        self.checks.append((x, "absent", sget(st, "f"), "KeyError raised"))
            return [st]

        def on_edge(self, node, label, st):
            if label not in ("T", "F") or node.e is None:
                return st
            want = label == "T"
            e = strip(node.e)
            while e is not None and e.k == "UnaryOperator" and e.v == "!":
                want = not want
                e = strip(e.kids[0])
            t = cmp_test(e)
            if t is None and e is not None and e.k == "DeclRefExpr":
                t = sget(st, "nm:" + e.n)
            if t is None:
                return st
            self.tests += 1
            eq = (t == "eq") == want
            return sset(st, "f", "found" if eq else "absent")
    an = _Found(cfg, tu)
    an.solve()
    if not an.tests:
        raise AnalysisError("anchor vanished: `cmp == 0` test in _bucket_set")
    seen_sites = set()
    for x, want, have, what in an.checks:
        key = (x.l, what, have)
        if key in seen_sites:
            continue
        seen_sites.add(key)
        n += 1
        if have != want:
            findings.append(dict(
                rule="SEARCH-BRANCH", function="_bucket_set", file=x.f, line=x.l,
                construct="%s on a path where the key is %s" % (
                    what, {"found": "found", "absent": "absent", None: "not known to be found or absent"}[have]),
                detail="a key is removed only when the search found it and added only when it is "
                       "absent (keys stay unique); KeyError is for deleting an absent key", path=[]))
    return dict(findings=findings, n=n)


# ---------------------------------------------------------------------------
# Python leaf mutators: the slot index comes from the search; insertion only
# when the key is absent, removal only when it was found.  Decided on every
# syntactic path, with the index tracked as an affine function a*S + b of the
# search result S (S >= 0: found at S; S < 0: absent, insertion point -S - 1).
# Names of locals play no role.

class _PathEnd(Exception):
    pass


def _affine(e, env):
    """(a, b) with value a*S + b, or None"""
    if isinstance(e, ast.Constant) and isinstance(e.value, int) and not isinstance(e.value, bool):
        return (0, e.value)
    if isinstance(e, ast.Name):
        return env.get(e.id)
    if isinstance(e, ast.UnaryOp) and isinstance(e.op, (ast.USub, ast.UAdd, ast.Invert)):
        v = _affine(e.operand, env)
        if v is None:
            return None
        if isinstance(e.op, ast.USub):
            return (-v[0], -v[1])
        if isinstance(e.op, ast.Invert):
            return (-v[0], -v[1] - 1)        # ~x == -x - 1
        return v
    if isinstance(e, ast.BinOp) and isinstance(e.op, (ast.Add, ast.Sub)):
        a, b = _affine(e.left, env), _affine(e.right, env)
        if a is None or b is None:
            return None
        sg = 1 if isinstance(e.op, ast.Add) else -1
        return (a[0] + sg * b[0], a[1] + sg * b[1])
    return None


def _leaf_paths(fn, keyparam):
    """Events of every path of a leaf mutator: list of (found: bool, events),
    events = [("insert", affine|None, line) | ("delete", affine|None, line) |
    ("raise", name, line)]; found is None on paths that never test the index."""
    out = []

    def is_keys(e):
        return isinstance(e, ast.Attribute) and e.attr == "_keys" or \
            isinstance(e, ast.Name) and e.id in aliases

    aliases = set()
    for a in ast.walk(fn):
        if isinstance(a, ast.Assign) and isinstance(a.value, ast.Attribute) and a.value.attr == "_keys" \
                and pyfront.unparse(a.value.value) == "self":
            for t in a.targets:
                if isinstance(t, ast.Name):
                    aliases.add(t.id)

    def events_of(node, env, ev):
        for c in ast.walk(node):
            if isinstance(c, ast.Call) and isinstance(c.func, ast.Attribute) and is_keys(c.func.value):
                if c.func.attr == "insert" and c.args:
                    ev.append(("insert", _affine(c.args[0], env), c.lineno))
                elif c.func.attr == "append":
                    ev.append(("insert", None, c.lineno))
                elif c.func.attr in ("pop", "remove"):
                    ev.append(("delete", _affine(c.args[0], env) if c.args else None, c.lineno))

    # locals that name a condition on the search result (`is_new = index < 0`)
    cond_defs = {}
    for a in ast.walk(fn):
        if isinstance(a, ast.Assign) and len(a.targets) == 1 and isinstance(a.targets[0], ast.Name) and \
                isinstance(a.value, (ast.Compare, ast.UnaryOp, ast.BoolOp)):
            cond_defs.setdefault(a.targets[0].id, []).append(a.value)

    def named(test):
        if isinstance(test, ast.Name) and len(cond_defs.get(test.id, ())) == 1:
            return cond_defs[test.id][0]
        return test

    def decide(test, env, found):
        """True / False / None for a test on the index given found/absent"""
        test = named(test)
        if isinstance(test, ast.Compare) and len(test.ops) == 1:
            l, r = _affine(test.left, env), _affine(test.comparators[0], env)
            op = test.ops[0]
            if l is not None and r is not None and found is not None:
                a, b = l[0] - r[0], l[1] - r[1]          # a*S + b  op  0
                if a == 0:
                    v = b
                    return {ast.Lt: v < 0, ast.LtE: v <= 0, ast.Gt: v > 0, ast.GtE: v >= 0,
                            ast.Eq: v == 0, ast.NotEq: v != 0}.get(type(op))
                # S ranges over [0, inf) when found, (-inf, -1] when absent
                lo, hi = (b, None) if (found and a > 0) else (None, b) if (found and a < 0) else \
                    (None, -a + b) if (not found and a > 0) else (-a + b, None)
                # value range [lo, hi] (None = unbounded)
                def always(pred_lo, pred_hi):
                    return pred_lo, pred_hi
                if isinstance(op, ast.GtE):
                    if lo is not None and lo >= 0:
                        return True
                    if hi is not None and hi < 0:
                        return False
                if isinstance(op, ast.Gt):
                    if lo is not None and lo > 0:
                        return True
                    if hi is not None and hi <= 0:
                        return False
                if isinstance(op, ast.Lt):
                    if hi is not None and hi < 0:
                        return True
                    if lo is not None and lo >= 0:
                        return False
                if isinstance(op, ast.LtE):
                    if hi is not None and hi <= 0:
                        return True
                    if lo is not None and lo > 0:
                        return False
        if isinstance(test, ast.UnaryOp) and isinstance(test.op, ast.Not):
            v = decide(test.operand, env, found)
            return None if v is None else not v
        return None

    def mentions_index(test, env):
        test = named(test)
        return any(isinstance(n, ast.Name) and env.get(n.id) is not None and env[n.id][0] != 0
                   for n in ast.walk(test))

    def run(stmts, env, found, ev):
        """continues along the statement list; raises _PathEnd at return/raise"""
        for k, st in enumerate(stmts):
            if isinstance(st, ast.Assign):
                events_of(st.value, env, ev)
                for t in st.targets:
                    if isinstance(t, ast.Name):
                        v = st.value
                        if isinstance(v, ast.Call) and isinstance(v.func, ast.Attribute) and \
                                v.func.attr == "_search" and v.args and \
                                isinstance(v.args[0], ast.Name) and v.args[0].id == keyparam:
                            env = dict(env)
                            env[t.id] = (1, 0)
                        else:
                            env = dict(env)
                            env[t.id] = _affine(v, env)
                    elif isinstance(t, ast.Tuple):
                        env = dict(env)
                        for tt in t.elts:
                            if isinstance(tt, ast.Name):
                                env[tt.id] = None
                continue
            if isinstance(st, ast.Delete):
                for t in st.targets:
                    if isinstance(t, ast.Subscript) and is_keys(t.value):
                        ev.append(("delete", _affine(t.slice, env), st.lineno))
                continue
            if isinstance(st, ast.Return):
                if st.value is not None:
                    events_of(st.value, env, ev)
                out.append((found, list(ev)))
                raise _PathEnd()
            if isinstance(st, ast.Raise):
                name = pyfront.unparse(st.exc).split("(")[0] if st.exc is not None else "re-raise"
                ev.append(("raise", name, st.lineno))
                out.append((found, list(ev)))
                raise _PathEnd()
            if isinstance(st, ast.If):
                rest = stmts[k + 1:]
                events_of(st.test, env, ev)
                options = []
                if mentions_index(st.test, env) and found is None:
                    for f in (True, False):
                        d = decide(st.test, env, f)
                        if d is None:
                            options += [(f, True), (f, False)]
                        else:
                            options.append((f, d))
                else:
                    d = decide(st.test, env, found) if found is not None else None
                    options = [(found, d)] if d is not None else [(found, True), (found, False)]
                for f, branch in options:
                    ev2 = list(ev)
                    try:
                        env2 = run(st.body if branch else st.orelse, env, f, ev2)
                        run(rest, env2, f, ev2)
                        out.append((f, ev2))
                    except _PathEnd:
                        pass
                raise _PathEnd()
            if isinstance(st, (ast.For, ast.While, ast.Try, ast.With)):
                raise AnalysisError("leaf mutator %s: unexpected %s at line %s" % (
                    fn.name, type(st).__name__, st.lineno))
            for child in ast.iter_child_nodes(st):
                if isinstance(child, ast.expr):
                    events_of(child, env, ev)
        return env
    try:
        ev = []
        run(fn.body, {}, None, ev)
        out.append((None, ev))
    except _PathEnd:
        pass
    return out


def search_py(res):
    tree = pyfront.base_py()
    cls = pyfront.classes(tree)
    n = 0
    for cname, methods in (("Bucket", ("_set", "_del")), ("Set", ("_set", "_del"))):
        mem = pyfront.class_members(cls[cname])
        for m in methods:
            fn = mem.get(m)
            if not isinstance(fn, ast.FunctionDef):
                raise AnalysisError("anchor vanished: %s.%s" % (cname, m))
            where = "%s.%s" % (cname, m)
            keyparam = fn.args.args[1].arg
            searches = [c for c in ast.walk(fn) if isinstance(c, ast.Call) and isinstance(c.func, ast.Attribute)
                        and c.func.attr == "_search"]
            n += 1
            if len(searches) != 1 or not (searches[0].args and isinstance(searches[0].args[0], ast.Name)
                                          and searches[0].args[0].id == keyparam
                                          and pyfront.unparse(searches[0].func.value) == "self"):
                res.findings.add(dict(
                    rule="SEARCH-DEFUSE", function=where, file=REL, line=fn.lineno,
                    construct="slot index does not come from one self._search(%s)" % keyparam,
                    detail="the slot index must come from the search on "
                           "(self, key)", path=[]))
                continue
            paths = _leaf_paths(fn, keyparam)
            if not any(f is True for f, _ in paths) or not any(f is False for f, _ in paths):
                raise AnalysisError("unrecognised idiom: %s does not branch on the search result" % where)
            for found, ev in paths:
                n += 1
                ins = [e for e in ev if e[0] == "insert"]
                dels = [e for e in ev if e[0] == "delete"]
                raises = [e for e in ev if e[0] == "raise"]
                bad = None
                if found is None and (ins or dels):
                    bad = ("key vector modified on a path that never tests the search result", (ins + dels)[0][2])
                elif found is True:
                    if ins:
                        bad = ("key inserted although the search found it", ins[0][2])
                    elif m == "_del" and not raises and [e[1] for e in dels] != [(1, 0)]:
                        bad = ("found branch of _del removes %s (expected the slot the search returned)" % (
                            [e[1] for e in dels],), fn.lineno)
                    elif m == "_set" and dels:
                        bad = ("key removed by _set", dels[0][2])
                elif found is False:
                    if dels:
                        bad = ("key removed although the search did not find it", dels[0][2])
                    elif m == "_set" and not raises and [e[1] for e in ins] != [(-1, -1)]:
                        bad = ("absent branch of _set inserts at %s (expected -index - 1)" % (
                            [e[1] for e in ins],), fn.lineno)
                    elif m == "_del" and not any(e[1] == "KeyError" for e in raises):
                        bad = ("absent branch of _del does not raise KeyError", fn.lineno)
                if bad:
                    res.findings.add(dict(
                        rule="SEARCH-BRANCH" if "insert" in bad[0] or "remove" in bad[0] or "KeyError" in bad[0]
                        else "SEARCH-DEFUSE",
                        function=where, file=REL, line=bad[1], construct=bad[0],
                        detail="a key is inserted only when the search did not "
                               "find it (at the insertion point -index - 1) and "
                               "removed only from the slot where the search "
                               "found it; deleting an absent key raises "
                               "KeyError (keys stay unique and sorted)", path=[]))
    n += _search_contract(res, cls)
    res.count("PY-SEARCH", n)


def _search_contract(res, cls):
    """_search: a bisection over [low, high) that returns the index when the
    three-way comparison says equal and -1 - low when the interval is empty.
    Roles (low, high, mid, comparison result) are recovered from the loop, not
    from names."""
    sfn = pyfront.class_members(cls["_BucketBase"]).get("_search")
    if not isinstance(sfn, ast.FunctionDef):
        raise AnalysisError("anchor vanished: _BucketBase._search")
    loops = [l for l in ast.walk(sfn) if isinstance(l, ast.While)]
    if len(loops) != 1:
        raise AnalysisError("_search: expected one bisection loop")
    loop = loops[0]
    t = loop.test
    if not (isinstance(t, ast.Compare) and len(t.ops) == 1 and isinstance(t.ops[0], (ast.Lt, ast.Gt))
            and isinstance(t.left, ast.Name) and isinstance(t.comparators[0], ast.Name)):
        raise AnalysisError("_search: loop condition %s" % pyfront.unparse(t))
    low, high = (t.left.id, t.comparators[0].id) if isinstance(t.ops[0], ast.Lt) else \
        (t.comparators[0].id, t.left.id)
    bad = []
    keyparam = sfn.args.args[1].arg
    # mid: assigned in the loop from an expression over low and high
    mid = None
    cmpvars = set()
    elems = set()          # names holding keys[mid]
    for a in ast.walk(loop):
        if isinstance(a, ast.Assign) and len(a.targets) == 1 and isinstance(a.targets[0], ast.Name):
            names = set(x.id for x in ast.walk(a.value) if isinstance(x, ast.Name))
            if {low, high} <= names:
                mid = a.targets[0].id
    if mid is None:
        raise AnalysisError("_search: bisection roles not recognised (no midpoint of %s and %s)" % (low, high))
    for a in ast.walk(loop):
        if isinstance(a, ast.Assign) and len(a.targets) == 1 and isinstance(a.targets[0], ast.Name):
            if isinstance(a.value, ast.Call) and pyfront.unparse(a.value.func) == "compare":
                cmpvars.add(a.targets[0].id)
            if isinstance(a.value, ast.Subscript) and mid in set(
                    x.id for x in ast.walk(a.value.slice) if isinstance(x, ast.Name)):
                elems.add(a.targets[0].id)

    def is_elem(e):
        if isinstance(e, ast.Name) and e.id in elems:
            return True
        return isinstance(e, ast.Subscript) and mid in set(
            x.id for x in ast.walk(e.slice) if isinstance(x, ast.Name))

    def is_key(e):
        return isinstance(e, ast.Name) and e.id == keyparam

    def is_cmp(e):
        """1 / -1 when e is the three-way comparison of (element, key) / (key, element)"""
        if isinstance(e, ast.Name) and e.id in cmpvars:
            for a in ast.walk(loop):
                if isinstance(a, ast.Assign) and isinstance(a.targets[0], ast.Name) and \
                        a.targets[0].id == e.id and isinstance(a.value, ast.Call):
                    return is_cmp(a.value)
        if isinstance(e, ast.Call) and pyfront.unparse(e.func) == "compare" and len(e.args) == 2:
            if is_elem(e.args[0]) and is_key(e.args[1]):
                return 1
            if is_key(e.args[0]) and is_elem(e.args[1]):
                return -1
        return None

    def tval(t, sign):
        if isinstance(t, ast.Name):
            # a local that names the comparison (`goes_right = compare(k, key) < 0`)
            ds = [a.value for a in ast.walk(sfn) if isinstance(a, ast.Assign) and len(a.targets) == 1
                  and isinstance(a.targets[0], ast.Name) and a.targets[0].id == t.id
                  and isinstance(a.value, (ast.Compare, ast.BoolOp, ast.UnaryOp))]
            if len(ds) == 1:
                return tval(ds[0], sign)
        if isinstance(t, ast.BoolOp):
            vals = [tval(x, sign) for x in t.values]
            return any(vals) if isinstance(t.op, ast.Or) else all(vals)
        if isinstance(t, ast.UnaryOp) and isinstance(t.op, ast.Not):
            return not tval(t.operand, sign)
        if isinstance(t, ast.Compare) and len(t.ops) == 1:
            l, r, op = t.left, t.comparators[0], t.ops[0]
            o = is_cmp(l)
            if o is not None and isinstance(r, ast.Constant) and isinstance(r.value, int):
                v, c = o * sign, r.value
                return {ast.Lt: v < c, ast.LtE: v <= c, ast.Gt: v > c, ast.GtE: v >= c,
                        ast.Eq: v == c, ast.NotEq: v != c}[type(op)]
            if (is_elem(l) and is_key(r)) or (is_key(l) and is_elem(r)):
                if isinstance(op, (ast.Is, ast.Eq)):
                    return sign == 0
                if isinstance(op, (ast.IsNot, ast.NotEq)):
                    return sign != 0
        raise AnalysisError("_search: test %s" % pyfront.unparse(t))
    # effects per sign of the comparison
    effects = {}
    for sign in (-1, 0, 1):
        eff = []

        def walk(stmts):
            for st in stmts:
                if isinstance(st, ast.If):
                    if walk(st.body if tval(st.test, sign) else st.orelse):
                        return True
                elif isinstance(st, ast.Assign) and isinstance(st.targets[0], ast.Name) and \
                        st.targets[0].id in (low, high):
                    eff.append((("low" if st.targets[0].id == low else "high"), _affine(st.value, {mid: (1, 0)})))
                elif isinstance(st, ast.Return):
                    eff.append(("return", _affine(st.value, {mid: (1, 0)}) if st.value is not None else None))
                    return True
            return False
        walk(loop.body)
        effects[sign] = eff
    want = {-1: [("low", (1, 1))], 0: [("return", (1, 0))], 1: [("high", (1, 0))]}
    for sign in (-1, 0, 1):
        if effects[sign] != want[sign]:
            bad.append("when keys[mid] %s key the step is %s (expected %s)" % (
                {-1: "<", 0: "==", 1: ">"}[sign], effects[sign], want[sign]))
    # after the loop: -1 - low
    after = [r for r in sfn.body if isinstance(r, ast.Return)]
    env_after = {low: (1, 0)}
    seen_loop = False
    for st in sfn.body:
        if st is loop:
            seen_loop = True
        elif seen_loop and isinstance(st, ast.Assign) and len(st.targets) == 1 and isinstance(st.targets[0], ast.Name):
            env_after[st.targets[0].id] = _affine(st.value, env_after)     # a local naming the insertion point
    if not after or _affine(after[-1].value, env_after) != (-1, -1):
        bad.append("the absent result is %s (expected -1 - %s)" % (
            pyfront.unparse(after[-1].value) if after else None, low))
    for b in bad:
        res.findings.add(dict(
            rule="SEARCH-DEFUSE", function="_BucketBase._search", file=REL, line=sfn.lineno,
            construct="_search: %s" % b,
            detail="_search is a bisection: low moves past mid when keys[mid] "
                   "< key, high comes down to mid when keys[mid] > key, mid is "
                   "returned on equality and -(insertion index) - 1 when the "
                   "interval is empty", path=[]))
    return 5
