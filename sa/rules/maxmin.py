"""MINMAX-TABLE (C02), C side: BTree_maxminKey and Bucket_maxminKey as decision
tables (the Python side is rules/minmax.py).

The two functions are walked by the abstract interpreter of rules/findend.py
for every valuation of

  empty   the container has no entries
  given   a bound was passed (and is not None)
  min     minKey (1) or maxKey (0)
  rc      result of the endpoint search (BTree_findRangeEnd /
          Bucket_findRangeEnd): -1 error, 0 no key on that side, 1 found

Outcome: the key slot converted into the result (`<node>.keys[<offset>]`),
or NULL with / without a ValueError raised here.  Specification:

  empty                  -> ValueError
  given, rc = 1          -> the slot the endpoint search reported; the search
                            was asked for the low end iff min, inclusive
  given, rc = 0          -> ValueError
  given, rc = -1         -> NULL, the search's exception untouched
  not given, min         -> first leaf, offset 0
  not given, max         -> last leaf, offset len - 1
"""
import itertools

from ..cir import strip, path, callee, const_int, text
from ..common import AnalysisError
from . import findend as fe


class Walk(fe.Walk):
    def __init__(self, tu, atoms, fname):
        fe.Walk.__init__(self, tu, dict(atoms, levels=1, z1=True, z2=True, r=0, low=0, next=0))
        self.m = atoms
        self.fname = fname
        self.raised = None
        self.result = None
        self.search = None

    def truth(self, v, e=None):
        if isinstance(v, tuple) and v[0] in ("param", "obj", "keys"):
            return True
        if isinstance(v, tuple) and v[0] in ("nonzero", "data") and v[1].endswith("(R)") and v[0] == "nonzero" \
                and v[1] == "len(R)":
            return not self.m["empty"]
        if isinstance(v, tuple) and v[0] == "data" and v[1] == "R":
            return not self.m["empty"]
        return fe.Walk.truth(self, v, e)

    def binop(self, e):
        if e.v in ("==", "!=", ">", "<=", "<", ">=") and const_int(e.kids[1]) == 0:
            a = strip(e.kids[0])
            if a is not None and a.k == "MemberExpr" and a.n in ("data", "len"):
                b = self.ev(a.kids[0])
                if b == fe._node("R"):
                    nonempty = not self.m["empty"]
                    return int({"==": not nonempty, "!=": nonempty, ">": nonempty, "<=": not nonempty,
                                "<": False, ">=": True}[e.v])
        return fe.Walk.binop(self, e)

    def member(self, e):
        base = self.ev(e.kids[0])
        if isinstance(base, tuple) and base[0] == "node":
            if e.n == "keys":
                return ("keys", base[1])
            if e.n == "firstbucket":
                return fe._node("first(%s)" % base[1])
            if e.n == "len":
                return ("nonzero", "len(%s)" % base[1])
            if e.n == "data":
                return ("data", base[1])
        raise AnalysisError("MINMAX-TABLE (C): member %s of %s at line %s" % (e.n, fe._show(base), e.l))

    def ev(self, e):
        e0 = strip(e)
        if e0 is not None and e0.k == "ArraySubscriptExpr":
            base = self.ev(e0.kids[0])
            if isinstance(base, tuple) and base[0] == "keys":
                idx = self.ev(e0.kids[1])
                return ("keyof", base[1], fe._show(idx))
        if e0 is not None and e0.k == "BinaryOperator" and e0.v in ("==", "!=") and "_Py_NoneStruct" in text(e0):
            # key != Py_None
            other = e0.kids[0] if "_Py_NoneStruct" in text(e0.kids[1]) else e0.kids[1]
            v = self.ev(other)
            is_none = not (isinstance(v, tuple) and v[0] == "param")
            if v == 0:
                is_none = False          # NULL is not None
            return int(is_none == (e0.v == "=="))
        return fe.Walk.ev(self, e)

    def call(self, e):
        c = callee(e)
        name = c[1] if c[0] == "fn" else None
        args = e.kids[1:]
        if name in ("PyArg_ParseTuple", "PyArg_UnpackTuple"):
            outs = [strip(a) for a in args if strip(a) is not None and strip(a).k == "UnaryOperator" and strip(a).v == "&"]
            if len(outs) != 1:
                raise AnalysisError("MINMAX-TABLE (C): argument parsing %s" % text(e)[:50])
            p = path(outs[0].kids[0])
            if self.m["given"]:
                self.env[p] = ("param", "bound")
            return 1
        if name in ("BTree_findRangeEnd", "Bucket_findRangeEnd"):
            node = self.ev(args[0])
            bound = self.ev(args[1])
            low = self.ev(args[2])
            excl = self.ev(args[3])
            self.search = (name, fe._show(node), fe._show(bound), low, excl)
            rc = self.m["rc"]
            if rc > 0:
                outs = [self.ev(a) for a in args[4:]]
                roles = ["FOUND", "FOUND offset"] if name == "BTree_findRangeEnd" else ["FOUND offset"]
                if len(outs) != len(roles):
                    raise AnalysisError("MINMAX-TABLE (C): out-parameters of %s" % name)
                for o, r in zip(outs, roles):
                    if not (isinstance(o, tuple) and o[0] == "addr"):
                        raise AnalysisError("MINMAX-TABLE (C): out-parameter of %s" % name)
                    self.env[o[1]] = fe._node(r) if r == "FOUND" else ("sym", r)
            return rc
        if name in ("PyErr_SetString", "PyErr_SetObject", "PyErr_Format", "PyErr_SetNone"):
            self.raised = "ValueError" if "PyExc_ValueError" in text(args[0]) else text(args[0])[:30]
            return 0
        if name in ("PyLong_FromLong", "PyLong_FromLongLong", "PyLong_FromUnsignedLong", "PyLong_FromUnsignedLongLong",
                    "PyFloat_FromDouble", "PyBytes_FromStringAndSize", "PyLong_FromSsize_t", "PyLong_FromSize_t"):
            v = self.ev(args[0])
            if isinstance(v, tuple) and v[0] == "keyof":
                self.result = v
                return ("obj", "key object")
        return fe.Walk.call(self, e)

    def stmt(self, s):
        if s.mo == "COPY_KEY_TO_OBJECT" or s.mi == "COPY_KEY_TO_OBJECT":
            # O = <object made from a key slot>
            subs = [n for n in s.walk() if n.k == "ArraySubscriptExpr"]
            if subs:
                v = self.ev(subs[0])
                if isinstance(v, tuple) and v[0] == "keyof":
                    self.result = v
            if s.k == "BinaryOperator" and s.v == "=":
                l = strip(s.kids[0])
                if l is not None and l.k == "DeclRefExpr":
                    self.env[l.n] = ("obj", "key object")
            else:
                for n in s.walk():
                    if n.k == "BinaryOperator" and n.v == "=":
                        l = strip(n.kids[0])
                        if l is not None and l.k == "DeclRefExpr" and l.n in self.env:
                            self.env[l.n] = ("obj", "key object")
            return
        fe.Walk.stmt(self, s)


def outcome(tu, fname, atoms):
    fn = tu.funcs.get(fname)
    body = tu.body(fname)
    if fn is None or body is None:
        raise AnalysisError("anchor vanished: %s" % fname)
    w = Walk(tu, atoms, fname)
    params = [p.n for p in fn.kids if p.k == "ParmVarDecl"]
    if len(params) != 3:
        raise AnalysisError("MINMAX-TABLE (C): signature of %s" % fname)
    w.env[params[0]] = fe._node("R")
    w.env[params[1]] = ("param", "args")
    w.env[params[2]] = atoms["min"]
    try:
        w.run_body(body)
        rv = None
    except fe._Return as r:
        rv = r.v
    if isinstance(rv, tuple) and rv[0] == "obj":
        if w.result is None:
            raise AnalysisError("MINMAX-TABLE (C): %s returns an object that is not made from a key slot" % fname)
        out = "%s.keys[%s]" % (w.result[1], w.result[2])
    elif rv == 0:
        out = "NULL, %s" % (w.raised or "no exception set here")
    else:
        raise AnalysisError("MINMAX-TABLE (C): %s returns %s" % (fname, fe._show(rv)))
    return out, w.search


def spec(fname, atoms):
    tree = fname.startswith("BTree")
    if atoms["empty"]:
        return "NULL, ValueError", None
    if atoms["given"]:
        srch = ("BTree_findRangeEnd" if tree else "Bucket_findRangeEnd", "R", "bound", atoms["min"], 0)
        if atoms["rc"] > 0:
            return ("FOUND.keys[FOUND offset]" if tree else "R.keys[FOUND offset]"), srch
        if atoms["rc"] == 0:
            return "NULL, ValueError", srch
        return "NULL, no exception set here", srch
    if atoms["min"]:
        return ("first(R).keys[0]" if tree else "R.keys[0]"), None
    return ("last(R).keys[len(last(R))-1]" if tree else "R.keys[len(R)-1]"), None


def valuations():
    for empty, given, mn in itertools.product((True, False), (True, False), (1, 0)):
        if given and not empty:
            for rc in (-1, 0, 1):
                yield dict(empty=empty, given=given, min=mn, rc=rc)
        else:
            yield dict(empty=empty, given=given, min=mn, rc=0)


def c_check(tu):
    findings = []
    n = 0
    for fname in ("BTree_maxminKey", "Bucket_maxminKey"):
        fn = tu.funcs.get(fname)
        for atoms in valuations():
            n += 1
            got = outcome(tu, fname, atoms)
            want = spec(fname, atoms)
            if got != want:
                findings.append(dict(
                    rule="MINMAX-TABLE", function=fname, file=fn.f, line=fn.l,
                    construct="%s, %s, bound %s%s: %s after %s (specified %s after %s)" % (
                        "minKey" if atoms["min"] else "maxKey", "empty" if atoms["empty"] else "not empty",
                        "given" if atoms["given"] else "omitted",
                        (", endpoint search returns %d" % atoms["rc"]) if atoms["given"] and not atoms["empty"] else "",
                        got[0], got[1] or "no search", want[0], want[1] or "no search"),
                    detail="minKey(b) / maxKey(b) answer with the key slot the inclusive endpoint search "
                           "reports for the low / high end, with the first / last entry of the leaf chain "
                           "when no bound is given, and with ValueError when there is no such key", path=[]))
    return dict(findings=findings, n=n)
