"""ITER-EXHAUST (C10): a loop over an operand's iterator ends only when the
iterator is exhausted.

Functions that pull the elements of an arbitrary iterable with PyIter_Next
(update, isdisjoint, the in-place operators) must see them all: after a
PyIter_Next that returned an element, a *success* return (non-NULL pointer,
non-negative integer) is reachable only through another PyIter_Next - the loop
may leave early only on an error path.  State: "open" after PyIter_Next, "done"
on the edge on which its result is NULL.  A loop that stops at the first
element it cannot remove and still reports success applies the operator to a
prefix of the operand.  Accepted idiom: functions that answer a question as soon
as it is decided (isdisjoint returns False at the first common element) - the
early success return hands back a constant.
"""
from ..cir import strip, strip_parens, path, callee, const_int, text
from ..cfg import CFG
from ..flow import Analysis, sget, sset, sdel, witness_lines
from ..common import AnalysisError
from .errexc import ErrExc

SINGLETONS = ("_Py_TrueStruct", "_Py_FalseStruct", "_Py_NoneStruct", "_Py_NotImplementedStruct")


def _answers_constant(fn, e):
    """the returned expression is a constant / singleton, or a variable that is
    only ever assigned such"""
    x = strip(e)
    if x is None:
        return True
    if const_int(e) is not None or any(sg in text(e) for sg in SINGLETONS):
        return True
    if x.k == "DeclRefExpr":
        defs = []
        for n in fn.walk():
            if n.k == "VarDecl" and n.n == x.n and n.kids and n.kids[-1].k != "Absent":
                defs.append(n.kids[-1])
            elif n.k == "BinaryOperator" and n.v == "=" and path(n.kids[0]) == x.n:
                defs.append(n.kids[1])
        return bool(defs) and all(const_int(d) is not None or any(sg in text(d) for sg in SINGLETONS)
                                  for d in defs)
    return False


class IterExhaust(ErrExc):
    """on top of the exception-state analysis (its value-set refinement of call
    results prunes the infeasible `ind < 0` / `ind >= 0` combinations)"""

    def __init__(self, cfg, tu):
        ErrExc.__init__(self, cfg, tu)
        self.strict = True
        self.reports2 = []
        self._seen2 = set()
        self.sites = 0
        self._ids = set()

    def on_node(self, node, st):
        out = []
        for s2 in ErrExc.on_node(self, node, st):
            out.extend(self._on_node(node, s2))
        return out

    def on_edge(self, node, label, st):
        st = ErrExc.on_edge(self, node, label, st)
        if st is None:
            return None
        return self._on_edge(node, label, st)

    def _on_node(self, node, st):
        e = node.e
        if e is None:
            return [st]
        for n in e.walk():
            if n.k == "BinaryOperator" and n.v == "=" or n.k == "VarDecl":
                rhs = strip(n.kids[-1]) if n.kids else None
                lhs = path(n.kids[0]) if n.k == "BinaryOperator" else n.n
                if rhs is not None and rhs.k == "CallExpr" and callee(rhs) == ("fn", "PyIter_Next") and lhs:
                    if node.id not in self._ids:
                        self._ids.add(node.id)
                        self.sites += 1
                    st = sset(st, "pi", ("open", lhs, node.where))
        if node.kind == "return":
            pi = sget(st, "pi")
            if pi is not None and pi[0] == "open":
                v = self.flag_value_of(node.e, st)
                err = (self.rt.endswith("*") and v == 0) or (isinstance(v, int) and not self.rt.endswith("*") and v < 0)
                if not err and not _answers_constant(self.cfg.fn, node.e) and v != 0:
                    key = (node.id, pi[2])
                    if key not in self._seen2:
                        self._seen2.add(key)
                        self.reports2.append((node, st, pi))
        return [st]

    def _on_edge(self, node, label, st):
        if label not in ("T", "F") or node.e is None:
            return st
        pi = sget(st, "pi")
        want = label == "T"
        e = strip_parens(node.e)
        while e is not None and e.k == "UnaryOperator" and e.v == "!":
            want = not want
            e = strip_parens(e.kids[0])
        e0 = strip(e)
        if e0 is None:
            return st
        var = None
        null_when = None
        if e0.k == "DeclRefExpr":
            var, null_when = e0.n, False
        elif e0.k == "BinaryOperator" and e0.v in ("==", "!="):
            a, b = strip(e0.kids[0]), strip(e0.kids[1])
            if const_int(e0.kids[1]) == 0 and a is not None:
                if a.k == "BinaryOperator" and a.v == "=":
                    # (v = PyIter_Next(it)) != NULL
                    r = strip(a.kids[1])
                    if r is not None and r.k == "CallExpr" and callee(r) == ("fn", "PyIter_Next"):
                        pi = ("open", path(a.kids[0]), node.where)
                        st = sset(st, "pi", pi)
                        if node.id not in self._ids:
                            self._ids.add(node.id)
                            self.sites += 1
                    a = strip(a.kids[0])
                if a.k == "DeclRefExpr":
                    var, null_when = a.n, (e0.v == "==")
        if pi is None or var is None or var != pi[1]:
            return st
        is_null = (want == null_when)
        if is_null:
            st = sset(st, "pi", ("done", pi[1], pi[2]))
        return st


def analyse_tu(tu):
    findings = []
    sites = 0
    for name in tu.order:
        fn = tu.funcs[name]
        if tu.body(name) is None or not any(
                n.k == "CallExpr" and callee(n) == ("fn", "PyIter_Next") for n in fn.walk()):
            continue
        an = IterExhaust(CFG(fn), tu)
        an.solve()
        sites += an.sites
        for node, st, pi in an.reports2[:1]:
            findings.append(dict(
                rule="ITER-EXHAUST", function=name, file=node.where.split(":")[0], line=node.line,
                construct="%s returns success while the operand's iterator still has elements" % name,
                detail="after PyIter_Next (%s) produced an element the function reaches a success return "
                       "without having seen the iterator exhausted: the operation was applied to a prefix "
                       "of the operand only" % pi[2], path=witness_lines(an.witness(node, st))))
    return dict(findings=findings, stats={"pyiter_sites": sites})
