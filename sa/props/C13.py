"""C13 - only representable keys and values are stored."""
from .. import engine
from ..rules import convert, changed, pytaint, registry


def tu_check(tu):
    n = convert.analyse_narrowing(tu)
    b = convert.analyse_bytes(tu)
    c = changed.analyse_conv(tu)
    from ..rules import keycheck
    kc = keycheck.analyse_tu(tu)
    f = n["findings"] + b["findings"] + [x for x in c["findings"] if x["rule"] == "CONV-BEFORE-MUT"] + kc["findings"]
    stats = dict(n["stats"])
    stats.update(b["stats"])
    stats.update(c["stats"])
    stats["key_insert_sites"] = kc["stats"]["key_insert_sites"]
    return dict(findings=f, stats=stats, dtype=convert.dtype_row(tu))


def run(tier="quick", seed=0, use_cache=True):
    res = engine.Result("C13")
    res.rules = ["NARROW-GUARD", "BYTES-GUARD", "CONV-BEFORE-MUT", "DTYPE-TABLE",
                 "PY-TAINT", "PY-NATIVE-CALL", "KEY-CHECK-DOM"]
    res.explanation = (
        "Guard-dominates-store dataflow over every function of the 22 "
        "translation units that calls a CPython converter "
        "(PyLong_AsLong / AsLongLongAndOverflow / AsUnsignedLongLong / "
        "PyFloat_AsDouble): on every path to a store into a key/value slot "
        "the converter's error indicator has been tested and every narrowing "
        "conversion on the way (long->int, long->unsigned int, double->float) "
        "has passed a round-trip / sign test; wrapping converter variants are "
        "forbidden; byte-string slots are filled only under an exact "
        "type+length test (fs). CONV-BEFORE-MUT: no store into persisted node "
        "data happens on a path where a conversion status is 0, and no "
        "conversion fails after the node was modified (flag-sensitive "
        "dataflow). DTYPE-TABLE: the resolved C slot types of each family "
        "equal the Python struct formats. Python: every key/value parameter "
        "of the public methods passes self._to_key/_to_value before the "
        "conversion-free layer (reads translate TypeError to absence), and "
        "the native datatype validates by struct packing and returns the "
        "normalised value on every path. Read-back equality value by value is "
        "not decided."
        ' KEY-CHECK-DOM: in the object-key units every store of the key argument is dominated by the comparability check (directly or through a conversion helper that returns non-zero only after it). Explicit range tests in front of a narrowing must be exact.')
    res.assumptions = ["CPython converter contracts (-1 + exception on failure)",
                       "struct.pack range checks for the Python side (interpreter behaviour)"]
    out = engine.map_tus("sa.props.C13", "tu_check", use_cache=use_cache)
    tot = {}
    for fam, r in sorted(out.items()):
        res.findings.extend(r["findings"], fam)
        for k, v in r["stats"].items():
            if isinstance(v, int):
                tot[k] = tot.get(k, 0) + v
    res.units = {"translation_units": len(out)}
    res.floor("slot stores of converted values (II)", out["II"]["stats"]["slot_stores"], 2)   # conversions centralised in helpers leave few store sites
    res.floor("byte-array conversion sites (fs)", out["fs"]["stats"]["bytes_sites"], 10)
    res.floor("conversion sites with a status (II)", out["II"]["stats"]["conv_status_sites"], 12)
    res.floor("translation units", len(out), 22)
    res.floor("key stores behind the comparability check (object-key units)", tot.get("key_insert_sites", 0), 5)
    res.count("KEY-CHECK-DOM", tot.get("key_insert_sites", 0))
    res.count("NARROW-GUARD", tot["slot_stores"])
    res.count("BYTES-GUARD", tot["bytes_sites"])
    res.count("CONV-BEFORE-MUT", tot["conv_status_sites"])
    convert.check_dtype_table(res, {f: r["dtype"] for f, r in out.items()})
    pytaint.check(res)
    pytaint.check_setstate(res)
    convert.check_py_native(res)
    res.samples = [
        {"rule": "NARROW-GUARD", "obligation": "TARGET = vcopy in COPY_KEY_FROM_ARG (int keys) only after PyErr_Occurred() is false and (int)vcopy == vcopy"},
        {"rule": "CONV-BEFORE-MUT", "obligation": "no store to self->keys/values/len in _bucket_set on a path with copied == 0"},
        {"rule": "DTYPE-TABLE", "obligation": {f: r["dtype"] for f, r in sorted(out.items())[:6]}},
    ]
    from ..rules import convhelpers
    convhelpers.extend(res, use_cache, ("CONV-HELPER", "TO-OBJECT"))
    res.explanation += " CONV-HELPER: the 64-bit check/convert helpers are interpreted per argument class (not an int / in range / in-range value equal to the API's error sentinel / above / below the range) against a model of the CPython conversion APIs: accept exactly the in-range classes, store unchanged, reject with TypeError. TO-OBJECT: every integral conversion on the way into a PyLong_From* constructor is value preserving for the range the operand has on that path (read-back never wraps)."
    return res
