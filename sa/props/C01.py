"""C01 - containers behave as a sorted map / sorted set."""
import ast

from .. import engine, pyfront
from ..common import AnalysisError
from ..rules import ordering as od, changed, pytaint, unlink, setwiring, pychanged


def tu_check(tu):
    a = od.none_order_c(tu)
    b = od.search_c(tu)
    c = changed.analyse_conv(tu)
    u = unlink.c_rules(tu)
    w = setwiring.c_rules(tu)
    from ..rules import firstbucket, sepguard
    fb = firstbucket.analyse_tu(tu)
    sg = sepguard.c_check(tu)
    from ..rules import convert
    nw = convert.analyse_narrowing(tu)
    # integer conversions only: the float32 narrowing is C13's (known finding there)
    nw["findings"] = [x for x in nw["findings"] if "float" not in x["construct"]]
    f = a["findings"] + b["findings"] + c["findings"] + u["findings"] + fb["findings"] + sg["findings"] + nw["findings"] + \
        [x for x in w["findings"] if x["rule"] == "ALIAS-GUARD"]
    # the setstate loaders are not single-key calls
    f = [x for x in f if not (x["rule"] == "CONV-BEFORE-MUT" and "setstate" in (x.get("function") or ""))]
    return dict(findings=f, stats={"none": a["n"], "headers": a["headers"], "search": b["n"],
                                   "conv": c["stats"], "unlink": u["n"], "inplace": w["stats"]["inplace"],
                                   "fb": fb["stats"]["firstbucket_stores"]})


def py_keyerror_clean(res):
    """`raise KeyError` in the Python leaf / tree mutators is reached without
    a prior in-place mutation."""
    tree = pyfront.base_py()
    n = 0
    for cname in ("Bucket", "Set", "_Tree"):
        mem = pyfront.class_members(pyfront.classes(tree)[cname])
        for m in ("_del", "_set"):
            fn = mem.get(m)
            if not isinstance(fn, ast.FunctionDef):
                continue
            lists, items = pychanged._aliases(fn)

            def walk(stmts, mutated):
                nonlocal n
                for st in stmts:
                    if isinstance(st, ast.Raise) and "KeyError" in pyfront.unparse(st):
                        n += 1
                        if mutated:
                            res.findings.add(dict(
                                rule="KEYERROR-AFTER-MUT", function="%s.%s" % (cname, m),
                                file=pychanged.REL, line=st.lineno,
                                construct="KeyError raised after `%s`" % mutated[0],
                                detail="a call that raises must leave the "
                                       "contents unchanged", path=[]))
                    elif isinstance(st, ast.If):
                        walk(st.body, list(mutated))
                        walk(st.orelse, list(mutated))
                    else:
                        for kind, txt in pychanged._events(st, lists, items):
                            if kind == "M":
                                mutated = mutated + [txt]
            walk(fn.body, [])
    res.count("PY-KEYERROR-AFTER-MUT", max(1, n))


def run(tier="quick", seed=0, use_cache=True):
    res = engine.Result("C01")
    res.rules = ["NONE-ORD", "SEARCH-DEFUSE", "SEARCH-BRANCH", "CONV-BEFORE-MUT",
                 "KEYERROR-AFTER-MUT", "GROW-ROLLBACK", "UNLINK-STATUS", "ALIAS-GUARD", "PY-TAINT", "FIRSTBUCKET-INV", "SEP-REFRESH", "PY-DEL-TAIL", "NARROW-GUARD", "INPLACE-OPERAND", "INPLACE-MONOTONE"]
    res.explanation = (
        "Structural necessary conditions of sorted-map behaviour, decided "
        "from source for all 22 translation units and the Python classes: "
        "the key comparison orders None below everything and decides the "
        "None cases before any rich comparison (COMPARE expansions of both "
        "macro headers and Python compare evaluated over the None-ness grid; "
        "the default-comparison gates accept None); in the leaf mutators the "
        "slot index used to replace / delete / insert is the one the search "
        "on (container, key) produced, a key is inserted only on the absent "
        "branch and removed only on the found branch (keys stay unique), "
        "KeyError is raised only for an absent key and before any "
        "modification; a failed conversion never reaches a modification and "
        "no conversion fails after one; a first leaf grown into an empty tree "
        "is rolled back when the operation fails; the delete path never "
        "reports 'first bucket went away' after having relinked it; in-place "
        "-= and ^= guard the aliased operand; Python public methods convert "
        "keys/values before the conversion-free layer. Equality with a "
        "reference sorted map over call histories (binary-search "
        "correctness over runtime keys, split/unlink paths over reachable "
        "shapes) is not decided."
        " FIRSTBUCKET-INV: every store of a node's firstbucket takes the value from the node's own contents (helper parameters decided at the call sites). SEP-REFRESH: the separator-refresh guard as a decision table over (child index, entries left), C = Python. PY-DEL-TAIL: decision table over (child lost its first leaf, child 0, child empty, child is a leaf) of what Python _Tree._del does behind the child's delete (unlink calls, _firstbucket, removal, flag). SEARCH-BRANCH (C) is a path rule over tests of the search result, written out or named.")
    res.assumptions = ["necessary conditions only"]
    out = engine.map_tus("sa.props.C01", "tu_check", use_cache=use_cache)
    tot_none = tot_search = tot_conv = tot_ke = 0
    for fam, r in sorted(out.items()):
        res.findings.extend(r["findings"], fam)
        tot_none += r["stats"]["none"]
        tot_search += r["stats"]["search"]
        tot_conv += r["stats"]["conv"]["conv_status_sites"]
        tot_ke += r["stats"]["conv"]["keyerror_sites"]
    headers = sorted(set(h for r in out.values() for h in r["stats"]["headers"]))
    res.floor("COMPARE headers evaluated", len(headers), 2)
    res.floor("KeyError sites (OO)", out["OO"]["stats"]["conv"]["keyerror_sites"], 4)
    res.floor("translation units", len(out), 22)
    res.count("NONE-ORD", tot_none)
    res.count("SEARCH-DEFUSE", tot_search)
    res.count("CONV-BEFORE-MUT", tot_conv)
    res.count("KEYERROR-AFTER-MUT", tot_ke)
    res.count("UNLINK-STATUS", sum(r["stats"]["unlink"] for r in out.values()))
    res.floor("stores of a node's firstbucket (OO)", out["OO"]["stats"]["fb"], 5)
    res.count("FIRSTBUCKET-INV", sum(r["stats"]["fb"] for r in out.values()))
    from ..rules import sepguard
    sepguard.py_check(res)
    res.count("SEP-REFRESH", 12 * len(out))
    res.count("ALIAS-GUARD", sum(r["stats"]["inplace"] for r in out.values()))
    od.none_order_py(res)
    od.search_py(res)
    pytaint.check(res)
    unlink.py_rules(res)
    from ..rules import pydeltail
    pydeltail.py_check(res)
    py_keyerror_clean(res)
    tmp = engine.Result("C01")
    setwiring.py_rules(tmp)
    for f in tmp.findings:
        if f["rule"] in ("ALIAS-GUARD", "INPLACE-OPERAND", "INPLACE-MONOTONE"):
            res.findings.add(f)
    res.extra["compare_headers"] = headers
    res.samples = [
        {"rule": "NONE-ORD", "obligation": "COMPARE(None, x) == -1, COMPARE(x, None) == 1, COMPARE(None, None) == 0 before any PyObject_RichCompareBool", "headers": headers},
        {"rule": "SEARCH-BRANCH", "obligation": "self->len-- only on the `cmp == 0` side of _bucket_set, self->len++ only on the other"},
        {"rule": "KEYERROR-AFTER-MUT", "obligation": "PyErr_SetObject(PyExc_KeyError, keyarg) in _bucket_set / _BTree_set is reached with no node modified"},
    ]
    res.units = {"translation_units": len(out)}
    from ..rules import cmpmacro
    cmpmacro.extend(res, use_cache, ("TEST_KEY_SET_OR",))
    res.explanation += ' CMP-MACRO: the key comparison macro of every family is the sign of (a - b) for every operand ordering (relational operators only, whole fsBTree key) and its error branch is taken exactly when an exception is pending.'
    return res
