"""C05 - evicting nodes never changes behaviour: pin typestate on all 22 TUs."""
from .. import engine
from ..rules import pins, pyalias


def tu_check(tu):
    return pins.analyse_tu(tu)


def run(tier="quick", seed=0, use_cache=True):
    res = engine.Result("C05")
    res.rules = ["PIN-LEAK", "GHOST-READ", "PIN-OWNER", "PY-STALE-ALIAS"]
    res.explanation = (
        "Typestate analysis of the activate/pin/release protocol over the "
        "type-checked clang AST of all 22 extension translation units: every "
        "function, every exit (including error exits never executed by tests). "
        "PIN-LEAK: no return with an object this frame pinned; GHOST-READ: no "
        "data field of a possibly-ghost persistent node is touched without an "
        "activation on the path (interprocedural needs-pinned summaries); "
        "PIN-OWNER: no release of a pin the frame does not hold. Persistence "
        "events are recognised from the expanded code (state field tests/"
        "stores and cPersistenceCAPI calls), so the macro definitions are "
        "themselves under analysis. PY-STALE-ALIAS (Python implementation, "
        "which has no pin): no write through a local copy of a node's state "
        "list (_keys/_values/_data) that was bound before a call into the "
        "comparing layer - a cache sweep during a key comparison reloads the "
        "node into new lists and the write would go to the discarded one.")
    res.assumptions = [
        "cPersistenceCAPI->setstate/accessed/changed behave as documented in persistent's cPersistence.h",
        "lifecycle slots (dealloc/tp_clear/traverse/_p_deactivate) work on raw memory behind an explicit ghost-state test (the test is required)",
        "decides the pin mechanism, not equality of results with an uncached twin",
    ]
    out = engine.map_tus("sa.props.C05", "tu_check", use_cache=use_cache)
    tot = {}
    for fam, r in sorted(out.items()):
        res.findings.extend(r["findings"], fam)
        for k, v in r["stats"].items():
            if isinstance(v, int):
                tot[k] = tot.get(k, 0) + v
    res.units = {"translation_units": len(out), "functions": tot.get("functions", 0),
                 "entry_points": tot.get("entries", 0)}
    oo = out.get("OO", {}).get("stats", {})
    res.floor("activation sites (OO)", oo.get("acq", 0), 40)
    res.floor("release sites (OO)", oo.get("rel", 0), 55)
    res.floor("pin-only sites (OO)", oo.get("pin", 0), 3)
    res.floor("lifecycle slots with ghost test (OO)", oo.get("lifecycle_with_test", 0), 8)
    res.floor("translation units", len(out), 22)
    res.count("PIN-LEAK", tot.get("acq", 0) + tot.get("pin", 0))
    res.count("PIN-OWNER", tot.get("rel", 0))
    res.count("GHOST-READ", tot.get("touches", 0))
    pyalias.check(res)
    res.extra["returns_checked"] = tot.get("returns", 0)
    res.extra["needs_pinned_summaries_OO"] = oo.get("needs", {})
    res.samples = [
        {"rule": "PIN-LEAK", "obligation": "every return of _bucket_get reached after PER_USE(self) passes PER_UNUSE(self)", "tu": "all 22"},
        {"rule": "GHOST-READ", "obligation": "self->len in Set_isdisjoint is read under an activation", "tu": "all 22"},
        {"rule": "PIN-OWNER", "obligation": "if (self_got_rebound) PER_UNUSE(self) in BTree_findRangeEnd releases only a pin taken in this frame", "tu": "all 22"},
    ]
    return res
