"""Shared table driver for C10 and C12."""
from ..rules import setops


def tables_for_tu(tu, entries):
    out = {}
    for e in entries:
        t = setops.c_table(tu, e)
        if t is not None:
            out[e] = t
    return out


def compare(res, out, entries, rule, value_families_only=False):
    """Compare C tables (out[fam][entry]) and Python tables with the spec."""
    wiring = setops.py_value_wiring()
    for what in setops.WIRING_FAULTS:
        res.findings.add(dict(
            rule="PY-MERGE-WIRING", function="_create_classes", file="src/BTrees/_module_builder.py", line=1,
            construct=what,
            detail="the weighted set operations of a family combine *values*: "
                   "MERGE / MERGE_WEIGHT / MERGE_DEFAULT must come from the "
                   "value datatype; with the key datatype the object-keyed "
                   "families (OI, OL, OU, OQ) lose the weighting", path=[]))
    groups = {}
    nobl = 0

    def note(function, file, what, key, fam=None):
        groups.setdefault((function, file, what), {}).setdefault(key, set()).add(fam)

    for e in entries:
        sits = setops.situations(e)
        # Python: one table per numeric value datatype for the weighted ops
        codes = sorted(wiring) if e.startswith("weighted") else ["I"]
        ptabs = {}
        for code in codes:
            w = wiring[code]
            sig = (id(w["MERGE"]), id(w["MERGE_WEIGHT"]), w["MERGE_DEFAULT"])
            if sig not in ptabs:
                ptabs[sig] = (code, setops.py_table(e, w))
        for key, sit in sits.items():
            sp = setops.spec(e, sit)
            for sig, (code, pt) in ptabs.items():
                nobl += 1
                if not setops.matches(pt[key], sp):
                    note("%s (Python, value type %s)" % (e, code), setops.REL,
                         "does %s where the documentation requires %s" % (pt[key], sp), key)
            for fam, r in out.items():
                t = r["tables"].get(e)
                if t is None:
                    continue
                nobl += 1
                cc = tuple(t[key]) if not isinstance(t[key], tuple) else t[key]
                cc = _tup(cc)
                if not setops.matches(cc, sp):
                    note("%s (C %s)" % (e, setops.ENTRY[e]), "src/BTrees/SetOpTemplate.c",
                         "does %s where the documentation requires %s" % (cc, sp), key, fam)
    for (function, file, what), keys in sorted(groups.items()):
        ks = sorted(keys)
        fams = sorted(set(f for k in ks for f in keys[k] if f))
        f = dict(rule=rule, function=function, file=file, line=1,
                 construct="%s in %d situation(s), first: %s" % (what, len(ks), ks[0]),
                 detail="%s %s; situations: %s" % (function, what, "; ".join(ks[:6]) +
                                                  (" ..." if len(ks) > 6 else "")), path=[])
        if fams:
            for fam in fams:
                res.findings.add(f, fam)
        else:
            res.findings.add(f)
    return nobl


def _tup(x):
    if isinstance(x, list):
        return tuple(_tup(i) for i in x)
    if isinstance(x, tuple):
        return tuple(_tup(i) for i in x)
    return x
