"""C07 - leaf conflict resolution is an exact three-way merge or a refusal."""
from .. import engine, cfront
from ..rules import merge

# families whose value comparison / key comparison macros differ
REPRESENTATIVE = None   # all 22


def tu_check(tu):
    out = {"tables": {}, "findings": [], "facts": {}}
    for is_set in (False, True):
        t = merge.c_table(tu, is_set)
        out["tables"]["set" if is_set else "map"] = {k: c for k, (v, c) in t.items()}
    f, facts = merge.c_prelude(tu)
    out["findings"] = f
    out["facts"] = facts
    out["unwrap"] = merge.c_unwrap(tu)
    return out


def run(tier="quick", seed=0, use_cache=True):
    res = engine.Result("C07")
    res.rules = ["MERGE-TABLE", "REFUSAL-PRELUDE", "UNWRAP-TABLE"]
    res.exhaustive = True
    res.explanation = (
        "Decision-table extraction by constant propagation over a finite "
        "domain: the merge walk observes keys only through the signs of three "
        "comparisons, values through equality, cursors through liveness and "
        "`position == 1`. For every consistent valuation of these atoms "
        "(all weak orderings of the live keys x value-equality patterns x "
        "first-position flags x liveness, for mappings and sets) the first "
        "action (refuse with reason r / emit key from X with value from Y and "
        "advance S / end) of C bucket_merge (each of the 22 translation "
        "units, set and mapping mode), Python Bucket._p_resolveConflict and "
        "Python Set._p_resolveConflict is extracted from the code and "
        "compared pairwise (including the reason code) and with a "
        "specification table written from the property statement (merge iff "
        "disjoint key-level changes, no first-key deletion). A branch on "
        "anything outside the atom set is an unrecognised idiom (exit 2). "
        "Refusal prelude (successor link of all three states -> 0, either "
        "side empty -> 12, empty result -> 10, successor carried over) and "
        "the state-unwrapping table (None / malformed -> TypeError / "
        "multi-leaf -> 11 / single embedded leaf) are checked structurally "
        "over enumerated state shapes. Assumes cursors yield strictly "
        "increasing keys (that is C01).")
    res.assumptions = ["cursors enumerate strictly increasing keys (C01)",
                       "merge_output copies the cursor's key (and value in mapping mode) - its body is covered by C16/C17 rules"]
    out = engine.map_tus("sa.props.C07", "tu_check", use_cache=use_cache)
    pyt = {}
    pyfn = {}
    for kind, mode in (("Bucket", "map"), ("Set", "set")):
        t, fn = merge.py_table(kind)
        pyt[mode] = t
        pyfn[mode] = fn
    nval = 0
    groups = {}     # (function, file, line, what, fam) -> [valuation keys]

    def note(function, file, line, what, key, fam=None):
        groups.setdefault((function, file, line, what), {}).setdefault(key, set()).add(fam)

    for mode in ("map", "set"):
        vals = merge.distinct_valuations(mode == "set")
        nval += len(vals)
        for key, v in vals.items():
            sp = merge.spec(v)
            pc = tuple(pyt[mode][key][1])
            kind = "Bucket" if mode == "map" else "Set"
            py_ok = merge.agrees_with_spec(pc, sp, v)
            if not py_ok:
                note("%s._p_resolveConflict" % kind, merge.REL, pyfn[mode].lineno,
                     "does %s where the property requires %s" % (pc, sp), key)
            for fam, r in out.items():
                cc = tuple(r["tables"][mode][key])
                c_ok = merge.agrees_with_spec(cc, sp, v)
                if not c_ok:
                    note("bucket_merge", "src/BTrees/MergeTemplate.c", 89,
                         "does %s where the property requires %s" % (cc, sp), key, fam)
                if c_ok and py_ok and cc != pc:
                    note("bucket_merge vs %s._p_resolveConflict" % kind,
                         "src/BTrees/MergeTemplate.c", 89,
                         "C %s but Python %s" % (cc, pc), key, fam)
    for (function, file, line, what), keys in sorted(groups.items()):
        ks = sorted(keys)
        fams = sorted(set(f for k in ks for f in keys[k] if f))
        f = dict(rule="MERGE-TABLE", function=function, file=file, line=line,
                 construct="%s in %d situation(s), first: %s" % (what, len(ks), ks[0]),
                 detail="merge decision table: %s %s; situations: %s" % (
                     function, what, "; ".join(ks[:6]) + (" ..." if len(ks) > 6 else "")),
                 path=[])
        if fams:
            for fam in fams:
                res.findings.add(f, fam)
        else:
            res.findings.add(f)
    res.count("MERGE-TABLE", nval * (len(out) + 1))
    res.floor("valuations (mapping+set)", nval, 350)
    res.floor("translation units", len(out), 22)
    # prelude
    for fam, r in sorted(out.items()):
        res.findings.extend(r["findings"], fam)
    for kind in ("Bucket", "Set"):
        f, facts = merge.py_prelude(kind)
        for x in f:
            res.findings.add(x)
    res.count("REFUSAL-PRELUDE", 5 * (len(out) + 2))
    # unwrap
    pu = merge.py_unwrap()
    for shape, want in merge.UNWRAP_SPEC.items():
        if pu[shape] != want:
            res.findings.add(dict(
                rule="UNWRAP-TABLE", function="_get_simple_btree_bucket_state", file=merge.REL,
                line=1, construct="%s -> %s (expected %s)" % (shape, pu[shape], want),
                detail="tree-level conflict resolution treats a %s state as "
                       "'%s'; the property requires '%s'" % (shape, pu[shape], want), path=[]))
        for fam, r in out.items():
            if r["unwrap"][shape] != want:
                res.findings.add(dict(
                    rule="UNWRAP-TABLE", function="get_bucket_state",
                    file="src/BTrees/BTreeTemplate.c", line=1,
                    construct="%s -> %s (expected %s)" % (shape, r["unwrap"][shape], want),
                    detail="tree-level conflict resolution treats a %s state "
                           "as '%s'; the property requires '%s'" % (shape, r["unwrap"][shape], want),
                    path=[]), fam)
    res.count("UNWRAP-TABLE", len(merge.UNWRAP_SPEC) * (len(out) + 1))
    codes = sorted(set(c[1] for c in pyt["map"].values() for c in [c[1]] if c[0] == "refuse"))
    res.extra["reason_codes_in_walk"] = codes
    res.units = {"translation_units": len(out), "python_functions": 3}
    ks = sorted(pyt["map"])
    import random
    rnd = random.Random(seed)
    res.samples = [{"valuation": k, "action": list(pyt["map"][k][1])} for k in rnd.sample(ks, 6)] + \
                  [{"unwrap": pu}]
    from ..rules import cmpmacro
    cmpmacro.extend(res, use_cache, ("TEST_KEY_SET_OR", "TEST_VALUE"))
    res.explanation += ' CMP-MACRO: the key and value comparison macros the merge atoms stand for are genuine three-way comparisons in every family.'
    from ..rules import typeexact
    typeexact.extend(res, use_cache)
    res.explanation += ' TYPE-EXACT: conflict resolution dispatches on the container kind through subclass-tolerant type tests.'
    return res
