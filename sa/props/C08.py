"""C08 - concurrent transactions: read-dependency declaration."""
from .. import engine
from ..rules import readcur


def tu_check(tu):
    return readcur.analyse_tu(tu)


def run(tier="quick", seed=0, use_cache=True):
    res = engine.Result("C08")
    res.rules = ["READCUR-MUST", "READCUR-NEVER", "PY-READCUR-MUST", "PY-READCUR-NEVER"]
    res.explanation = (
        "Dominator check on the CFG of every function that descends a write "
        "into a child of an interior node (calls of _BTree_set/_bucket_set on "
        "X->data[i].child, also through d = X->data + i): a "
        "cPersistenceCAPI->readCurrent(X) call must dominate each descent "
        "(22 TUs). Call-graph reachability: no registered entry point that "
        "cannot reach a change registration reaches readCurrent. Python: "
        "the _p_jar.readCurrent(self) guard precedes child._set/_del in "
        "_Tree._set/_del and appears nowhere under read-only methods. "
        "Outcomes of schedules are not decided.")
    res.assumptions = [
        "readCurrent registers the node as a read dependency (ZODB Connection.readCurrent)",
        "decides the declaration mechanism only; serialisability of schedules needs a database",
    ]
    out = engine.map_tus("sa.props.C08", "tu_check", use_cache=use_cache)
    tot = {}
    for fam, r in sorted(out.items()):
        res.findings.extend(r["findings"], fam)
        for k, v in r["stats"].items():
            tot[k] = tot.get(k, 0) + v
    oo = out["OO"]["stats"]
    res.units = {"translation_units": len(out)}
    res.floor("descent call sites (OO)", oo["descents"], 2)
    res.floor("read-only entry points (OO)", oo["readers"], 30)
    res.floor("translation units", len(out), 22)
    res.count("READCUR-MUST", tot["descents"])
    res.count("READCUR-NEVER", tot["readers"])
    res.extra["totals"] = tot
    res.samples = [
        {"rule": "READCUR-MUST", "obligation": "readCurrent(self) dominates _BTree_set(BTREE(d->child), ...) and _bucket_set(BUCKET(d->child), ...) in _BTree_set"},
        {"rule": "READCUR-NEVER", "obligation": "BTree_get, BTree_keys, BTree_length ... (%d read-only entry points in OO) cannot reach readCurrent" % oo["readers"]},
    ]
    try:
        from ..rules import pyreadcur
    except ImportError:
        pyreadcur = None
    if pyreadcur is not None:
        pyreadcur.check(res)
    # the leaf merge decides "merge, serialise or conflict": its decision
    # tables (C07) are part of this property's mechanism
    from . import C07
    r7 = C07.run(tier=tier, seed=seed, use_cache=use_cache)
    for f in r7.findings:
        res.findings.add(f)
    res.count("MERGE-TABLE", r7.instances.get("MERGE-TABLE", 0))
    res.count("CMP-MACRO", r7.instances.get("CMP-MACRO", 0))
    res.rules.append("MERGE-TABLE, CMP-MACRO (shared with C07)")
    return res
