"""C03 - a container used only through its API is never internally damaged."""
from .. import engine
from ..rules import sizes, unlink, splitcommit


def tu_check(tu):
    s = sizes.c_facts(tu)
    u = unlink.c_rules(tu)
    sc = splitcommit.analyse_tu(tu)
    from ..rules import firstbucket
    fb = firstbucket.analyse_tu(tu)
    from ..rules import pins
    gh, ghf = pins.ghost_reads_in(tu, ["BTree_deleteNextBucket", "Bucket_deleteNextBucket", "BTree_grow", "BTree_split",
                                       "BTree_split_root", "bucket_split", "BTree_lastBucket", "_BTree_clear"])
    return dict(sizes=s, unlink=u, split=sc, fb=fb, ghost=gh, ghost_functions=ghf)


def run(tier="quick", seed=0, use_cache=True):
    res = engine.Result("C03")
    res.rules = ["SIZE-WIRING", "SPLIT-POINT", "UNLINK-STATUS", "PY-UNLINK-STATUS", "SPLIT-COMMIT", "FIRSTBUCKET-INV", "PY-DEL-TAIL", "GHOST-READ"]
    res.explanation = (
        "Structural necessary conditions of the tree invariants, extracted "
        "from the code of both implementations and compared with the "
        "specification and with each other: (1) split thresholds - a leaf is "
        "split when it exceeds max_leaf_size, an interior child when it "
        "exceeds max_internal_size, the root at >= 2*max_internal_size; each "
        "test reads the size attribute of the right child kind; non-positive "
        "sizes are rejected; default split index len/2 in the five splitting "
        "functions (22 translation units + Python); (2) the unlink protocol "
        "of the delete path - the 'first bucket went away' status is "
        "consumed (reset) exactly where the predecessor leaf is relinked, so "
        "that no ancestor unlinks a second leaf, in _BTree_set and "
        "_Tree._del; (3) SPLIT-COMMIT - once bucket_split / BTree_split has "
        "succeeded (the new sibling is linked behind the split node) no "
        "return is reachable in the caller before the sibling is stored as a "
        "child and the parent's len is increased, and the split functions "
        "themselves have no failure exit after their first store into the "
        "node being split (accepted idiom: the final PER_CHANGED result). The invariants after every step of every history (leaf "
        "chain = descent order, no empty node, keys within separator ranges) "
        "depend on reachable shapes and are not decided by static analysis."
        ' FIRSTBUCKET-INV and PY-DEL-TAIL as in C01; status 2 is returned only with the child index tested zero.')
    res.assumptions = ["necessary conditions only; _check()/check() success over histories is not decided"]
    out = engine.map_tus("sa.props.C03", "tu_check", use_cache=use_cache)
    for fam, r in sorted(out.items()):
        res.findings.extend(r["sizes"]["findings"], fam)
        res.findings.extend(r["ghost"], fam)
        res.findings.extend(r["unlink"]["findings"], fam)
        res.findings.extend(r["split"]["findings"], fam)
        res.findings.extend(r["fb"]["findings"], fam)
    res.floor("translation units", len(out), 22)
    res.count("GHOST-READ", sum(len(r["ghost_functions"]) for r in out.values()))
    res.floor("split / unlink functions under the pin typestate (OO)", len(out["OO"]["ghost_functions"]), 6)
    res.count("SIZE-WIRING", sum(r["sizes"]["n"] for r in out.values()))
    res.count("UNLINK-STATUS", sum(r["unlink"]["n"] for r in out.values()))
    res.floor("split call sites (OO)", out["OO"]["split"]["stats"]["split_call_sites"], 2)
    res.floor("commit stores in the split functions (OO)", out["OO"]["split"]["stats"]["split_commit_stores"], 3)
    res.count("FIRSTBUCKET-INV", sum(r["fb"]["stats"]["firstbucket_stores"] for r in out.values()))
    res.count("SPLIT-COMMIT", sum(r["split"]["stats"]["split_call_sites"] + r["split"]["stats"]["split_commit_stores"] for r in out.values()))
    res.extra["split_commit_accepted_idioms"] = out["OO"]["split"]["stats"]["accepted"]
    sizes.py_check(res, out["OO"]["sizes"]["facts"])
    unlink.py_rules(res)
    from ..rules import pydeltail
    pydeltail.py_check(res)
    res.units = {"translation_units": len(out)}
    res.samples = [{"rule": "SIZE-WIRING", "c_facts": out["OO"]["sizes"]["facts"]},
                   {"rule": "UNLINK-STATUS", "c_facts": out["OO"]["unlink"]["facts"]}]
    return res
