"""C03 - a container used only through its API is never internally damaged."""
from .. import engine
from ..rules import sizes, unlink


def tu_check(tu):
    s = sizes.c_facts(tu)
    u = unlink.c_rules(tu)
    return dict(sizes=s, unlink=u)


def run(tier="quick", seed=0, use_cache=True):
    res = engine.Result("C03")
    res.rules = ["SIZE-WIRING", "SPLIT-POINT", "UNLINK-STATUS", "PY-UNLINK-STATUS"]
    res.explanation = (
        "Structural necessary conditions of the tree invariants, extracted "
        "from the code of both implementations and compared with the "
        "specification and with each other: (1) split thresholds - a leaf is "
        "split when it exceeds max_leaf_size, an interior child when it "
        "exceeds max_internal_size, the root at >= 2*max_internal_size; each "
        "test reads the size attribute of the right child kind; non-positive "
        "sizes are rejected; default split index len/2 in the five splitting "
        "functions (22 translation units + Python); (2) the unlink protocol "
        "of the delete path - the 'first bucket went away' status is "
        "consumed (reset) exactly where the predecessor leaf is relinked, so "
        "that no ancestor unlinks a second leaf, in _BTree_set and "
        "_Tree._del. The invariants after every step of every history (leaf "
        "chain = descent order, no empty node, keys within separator ranges) "
        "depend on reachable shapes and are not decided by static analysis.")
    res.assumptions = ["necessary conditions only; _check()/check() success over histories is not decided"]
    out = engine.map_tus("sa.props.C03", "tu_check", use_cache=use_cache)
    for fam, r in sorted(out.items()):
        res.findings.extend(r["sizes"]["findings"], fam)
        res.findings.extend(r["unlink"]["findings"], fam)
    res.floor("translation units", len(out), 22)
    res.count("SIZE-WIRING", sum(r["sizes"]["n"] for r in out.values()))
    res.count("UNLINK-STATUS", sum(r["unlink"]["n"] for r in out.values()))
    sizes.py_check(res, out["OO"]["sizes"]["facts"])
    unlink.py_rules(res)
    res.units = {"translation_units": len(out)}
    res.samples = [{"rule": "SIZE-WIRING", "c_facts": out["OO"]["sizes"]["facts"]},
                   {"rule": "UNLINK-STATUS", "c_facts": out["OO"]["unlink"]["facts"]}]
    return res
