"""C14 - an exception raised by a key comparison leaves the container intact."""
from .. import engine
from ..rules import cmpexc, changed, refs, clearfill


def tu_check(tu):
    r = cmpexc.analyse_tu(tu)
    c = changed.analyse_conv(tu)
    f = r["findings"] + [x for x in c["findings"] if x["rule"] == "GROW-ROLLBACK"]
    stats = dict(r["stats"])
    stats["grow_first_leaf_sites"] = c["stats"]["grow_first_leaf_sites"]
    if r["stats"]["object_keys"]:
        lr = refs.analyse_tu(tu)
        f += lr["findings"]
        stats["newref_sources"] = lr["stats"]["newref_sources"]
        cf = clearfill.analyse_tu(tu)
        f += cf["findings"]
        stats["clear_sites"] = cf["stats"]["clear_sites"]
    return dict(findings=f, stats=stats)


def run(tier="quick", seed=0, use_cache=True):
    res = engine.Result("C14")
    res.rules = ["CMP-EXIT", "ITER-FINI", "CMP-AFTER-COMMIT", "GROW-ROLLBACK", "LOCAL-REF",
                 "PY-CMP-AFTER-COMMIT", "CLEAR-THEN-FILL", "PY-CMP-SWALLOW"]
    res.explanation = (
        "Path rules over the clang CFG of every function of the 22 "
        "translation units that compares keys or owns a SetIteration: from "
        "the error successor of every key comparison (TEST_KEY_SET_OR / "
        "BUCKET_SEARCH / BTREE_SEARCH expansions; live only in the five "
        "object-key units) every path returns the function's error sentinel "
        "without clearing the exception (CMP-EXIT); an initialised "
        "SetIteration is finalised on every exit (ITER-FINI); a first leaf "
        "grown into an empty tree is rolled back on every later error exit "
        "(GROW-ROLLBACK); no reference is leaked on the error exits "
        "(LOCAL-REF, object-key units); and in the tree mutators no key "
        "comparison with a live error exit is executed after the child has "
        "been modified (CMP-AFTER-COMMIT, C and Python) - such an exit "
        "returns with a partial change; and no operation empties its own "
        "container and then rebuilds it through calls from which a key "
        "comparison is reachable (CLEAR-THEN-FILL, object-key units; state "
        "loaders are CONV-BEFORE-MUT's); no Python `try` whose handler answers "
        "instead of re-raising encloses a call into the comparing layer "
        "(PY-CMP-SWALLOW). What the container holds after the "
        "n-th comparison of a concrete operation fails is not decided.")
    res.assumptions = ["comparison error exits are dead code in native-key families (constant-false condition) and are pruned there"]
    out = engine.map_tus("sa.props.C14", "tu_check", use_cache=use_cache)
    tot = {}
    for fam, r in sorted(out.items()):
        res.findings.extend(r["findings"], fam)
        for k, v in r["stats"].items():
            if isinstance(v, int) and not isinstance(v, bool):
                tot[k] = tot.get(k, 0) + v
    oo = out["OO"]["stats"]
    res.floor("comparison error exits (OO)", oo["cmp_error_sites"], 9)
    res.floor("SetIteration initialisations (OO)", oo["iter_sites"], 4)
    res.floor("object-key translation units", sum(1 for r in out.values() if r["stats"]["object_keys"]), 5)
    res.floor("translation units", len(out), 22)
    res.count("CMP-EXIT", tot["cmp_error_sites"])
    res.count("ITER-FINI", tot["iter_sites"])
    res.count("GROW-ROLLBACK", tot["grow_first_leaf_sites"])
    res.count("LOCAL-REF", tot.get("newref_sources", 0))
    res.floor("calls that empty the function's own container (object-key units)", tot.get("clear_sites", 0), 5 * 5)
    res.count("CLEAR-THEN-FILL", tot.get("clear_sites", 0))
    cmpexc.py_rules(res)
    cmpexc.py_swallow(res)
    res.units = {"translation_units": len(out)}
    res.samples = [
        {"rule": "CMP-EXIT", "obligation": "BUCKET_SEARCH(i, cmp, self, key, goto Done) in _bucket_set: Done returns result == -1 without PyErr_Clear"},
        {"rule": "ITER-FINI", "obligation": "i1, i2, i3 of bucket_merge reach finiSetIteration on the err path"},
        {"rule": "CMP-AFTER-COMMIT", "obligation": "no TEST_KEY_SET_OR after the descent in _BTree_set (1 known finding)"},
    ]
    from ..rules import cmpmacro
    cmpmacro.extend(res, use_cache, ("TEST_KEY_SET_OR",))
    res.explanation += ' CMP-MACRO: the error branch of the key comparison macro is taken exactly when an exception is pending (COMPARE returns +1 when == raised).'
    from ..rules import errexc
    errexc.extend(res, use_cache)
    res.explanation += " ERR-NOEXC: an error return is never reached through a test that also covers a callee's non-error result, so the exception seen by the caller is the one the comparison raised."
    return res
