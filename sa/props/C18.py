"""C18 - the diagnostic checkers accept every valid tree and detect corruption."""
from .. import engine
from ..rules import checkers as ck


def tu_check(tu):
    # the functions the C checker consists of: BTree_check_inner, its entry
    # point and the helpers of the unit it calls
    from ..rules import pins
    from ..cir import callee
    fns = set(["BTree_check_inner", "BTree_check"])
    for c in tu.func("BTree_check_inner").walk():
        if c.k == "CallExpr" and callee(c)[0] == "fn" and callee(c)[1] in tu.funcs:
            try:
                tu.body(callee(c)[1])
                fns.add(callee(c)[1])
            except Exception:
                pass
    pr = pins.analyse_tu(tu)
    ghost = [f for f in pr["findings"] if f["rule"] == "GHOST-READ" and f.get("function") in fns]
    return dict(atoms=ck.c_atoms(tu), ghost=ghost, checker_functions=sorted(fns))


def run(tier="quick", seed=0, use_cache=True):
    res = engine.Result("C18")
    res.rules = ["CHECK-INVENTORY", "CHECK-AGREE", "COMPLAIN-DISC", "RANGE-PROP", "CHECK-TABLES", "CHECK-TRANSPARENT", "GHOST-READ"]
    res.explanation = (
        "Inventory of what the checkers assert, decided from source: every "
        "CHECK(...) of BTree_check_inner (each of the 22 translation units) "
        "and every assert_ of _Tree._check is normalised to a predicate atom "
        "with its scope (all / leaf / interior children); each corruption "
        "class of the property that concerns pointers and node shape "
        "(linking of leaves, uniformity of child kinds, non-emptiness of "
        "nodes) must be covered by its atoms in both implementations, no "
        "assertion may be weakened by a disjunction, and the C and Python "
        "atom sets must agree. For BTrees.check: the three comparisons of "
        "check_sorted (below lower bound, at/above upper bound, out of "
        "order) are made for every key and reach complain -> errors -> "
        "AssertionError; the key range handed to child i is extracted as a "
        "decision table over (i > 0, i < n-1) and must be lo' = keys[i-1] "
        "or the inherited lo, hi' = keys[i] or the inherited hi. CHECK-TABLES: the two dispatch tables of check.py are evaluated from the module-level loops that build them (partial evaluation with classes as symbols) and compared, for the 22 families and both implementations, with kind/mapping-ness per container type and leaf type per tree type. CHECK-TRANSPARENT: no function of check.py applies a de-duplicating or re-ordering operation (dict, set, sorted, .sort ...) to what it takes from a state, so duplicates and misorder reach check_sorted. That every "
        "valid tree is accepted, and that each concrete corruption is "
        "caught by the combination of the two tools, is not decided."
        ' GHOST-READ (the pin typestate of C05, restricted to the functions of the C checker): what the checker compares is read from activated nodes only - a field of a possibly unloaded node is not evidence about the tree.'
        ' CHECK-TABLES: the dispatch tables of check.py are evaluated from their module-level loops for every family and both implementations. CHECK-TRANSPARENT: no de-duplicating / re-ordering operation on state data. An assertion switched off by a guard on its own value counts as weakened.')
    res.assumptions = ["crack_btree / crack_bucket split the state by position as documented (only the absence of de-duplicating / re-ordering operations is checked)"]
    out = engine.map_tus("sa.props.C18", "tu_check", use_cache=use_cache)
    pa = ck.py_atoms()
    n = 0
    for fam, r in sorted(out.items()):
        atoms = [tuple(a) for a in r["atoms"]]
        f, k = ck.compare(atoms, pa)
        n += k
        res.findings.extend(f, fam)
        res.findings.extend(r["ghost"], fam)
    res.count("GHOST-READ", sum(len(r["checker_functions"]) for r in out.values()))
    res.floor("functions of the C checker under the pin typestate (OO)", len(out["OO"]["checker_functions"]), 2)
    res.floor("C assertions (OO)", len(out["OO"]["atoms"]), 12)
    res.floor("Python assertions", len(pa), 9)
    res.floor("translation units", len(out), 22)
    res.count("CHECK-INVENTORY", n)
    ck.check_py_module(res)
    from ..rules import checktables
    checktables.check(res)
    res.samples = [{"c_atoms_OO": [a[0] for a in out["OO"]["atoms"]]},
                   {"python_atoms": [a[0] for a in pa]}]
    res.units = {"translation_units": len(out)}
    return res
