"""C02 - range searches and lazy key/value/item sequences are exact."""
import itertools

from .. import engine
from ..rules import ranges as rg
from ..rules import errignored
from ..rules import minmax
from ..rules import findend
from ..rules import maxmin
from ..rules import rangewire
from ..rules import seeknet
from ..common import AnalysisError


def tu_check(tu):
    t = rg.c_range_table(tu)
    sn = seeknet.analyse(tu)
    from ..rules import iternext
    ia = iternext.analyse(tu)
    try:
        sa = rg.seek_algebra(tu)
    except AnalysisError as e:
        # the per-iteration view needs the two loops in BTreeItems_seek itself;
        # when the walk is organised differently the net effect (SEEK-NET) is
        # what is decided - provided it saw moves in both directions
        if sn["kinds"] != ["next", "prev", "within"] or sn["n"] < 10:
            raise
        sa = "not applicable to this shape (%s); SEEK-NET decides" % str(e)[:120]
    bn = rg.bound_norm_c(tu)
    unb = rg.c_unbounded_table(tu)
    cross = rg.c_cross_table(tu)
    ei = errignored.analyse_tu(tu)
    fe = findend.c_check(tu)
    mx = maxmin.c_check(tu)
    rw = rangewire.c_check(tu)
    from ..rules import pins
    gh, ghf = pins.ghost_reads_in(tu, ["BTree_findRangeEnd", "BTree_rangeSearch", "Bucket_findRangeEnd", "Bucket_rangeSearch",
                                       "BTreeItems_seek", "BTree_maxminKey", "Bucket_maxminKey", "BTreeItems_item",
                                       "BTreeItems_slice", "BTreeItems_length_or_nonzero"])
    bn["findings"] = bn["findings"] + ei["findings"] + fe["findings"] + mx["findings"] + rw["findings"] + sn["findings"] + gh + ia["findings"]
    bn["rw"] = rw["n"]
    bn["fe"] = fe["n"]
    bn["mx"] = mx["n"]
    bn["ei"] = ei["stats"]["error_result_sites"]
    return dict(rw=bn["rw"], mx=bn["mx"], fe=bn["fe"], ei=bn["ei"], cross={repr(k): v for k, v in cross.items()}, unb={repr(k): v for k, v in unb.items()}, range={repr(k): v for k, v in t.items()}, seek=sa, iteradv=dict(n=ia["n"], kinds=ia["kinds"]), ghost_functions=ghf, seeknet=dict(n=sn["n"], kinds=sn["kinds"], dropped=sn["dropped"], returns=sn["returns"]), findings=bn["findings"], bn=bn["n"])


def run(tier="quick", seed=0, use_cache=True):
    res = engine.Result("C02")
    res.rules = ["RANGE-TABLE", "BOUND-NORM", "SEEK-ALGEBRA", "SEEK-NET", "ITER-ADVANCE", "ITER-CONTINUE", "TREE-EXCLUDE", "UNBOUNDED-END", "RANGE-SHAPE", "ENDS-CROSS", "ERR-IGNORED", "MINMAX-TABLE", "FINDEND-TABLE", "RANGE-WIRING", "GHOST-READ"]
    res.exhaustive = True
    res.explanation = (
        "Leaf-level and cursor-level pieces of the range machinery, decided "
        "from source. RANGE-TABLE: for every valuation of (key found, low/"
        "high end, exclusive) the endpoint computed by C Bucket_findRangeEnd "
        "(22 translation units) and by Python _range is extracted as an "
        "affine offset of the search index and must equal the specification "
        "(least index with key >= / > min, greatest with key <= / < max; the "
        "in-range test is present). BOUND-NORM: at every range entry point an "
        "omitted bound and None are tested together. SEEK-ALGEBRA: along "
        "every path of the two loops of BTreeItems_seek the updates of "
        "(pseudoindex, delta, currentoffset) are computed as polynomials and "
        "must be the affine functions the leaf geometry dictates (moving to "
        "the next leaf adds len - offset, moving to the previous leaf "
        "subtracts offset + 1 and lands on len' - 1). SEEK-NET: the whole "
        "function is interpreted abstractly path by path (polynomial values; helpers inlined, out-parameters "
        "followed, each loop unrolled 3 times, contradictory paths dropped by "
        "bounds on linear forms); with base(leaf) the index of a leaf's first "
        "item every successful return must have committed pseudoindex == i "
        "and base(committed leaf) + committed offset == i. ITER-ADVANCE: BTreeIter_next, "
        "interpreted the same way, parks the finger at (leaf, offset + 1) exactly "
        "while offset + 1 < len and at (next leaf, 0) otherwise, and ends the "
        "iteration only in the slice's last leaf. GHOST-READ: the pin "
        "typestate of C05 restricted to the range / seek / min-max functions and "
        "their helpers - an end point computed from a field of an unloaded leaf "
        "is not the end of the range. ITER-CONTINUE: the "
        "Python lazy sequence moves on to the next leaf unless a leaf after "
        "the first yielded nothing (decision table over which leaves yield). "
        "TREE-EXCLUDE: decision table of the range arguments the Python lazy "
        "sequence hands to each of three chained leaves for every (bound "
        "omitted / None / given) x exclusion flags: an omitted bound's "
        "exclusion reaches the first / last leaf only. UNBOUNDED-END / "
        "RANGE-SHAPE: the omitted-bound branches of C BTree_rangeSearch are "
        "walked symbolically for every (exclusive, end leaf has several "
        "entries, chain has one leaf); the end must be FIRST[0] / FIRST[1] / "
        "NEXT(FIRST)[0] / empty (mirror image for the high end) and may not "
        "depend on the root's child count. ENDS-CROSS: decision table of the "
        "emptiness tests BTree_rangeSearch runs once both end positions are "
        "known, over (min given, excludemin, max given, excludemax, ends in "
        "the same leaf): same leaf -> offsets compared; different leaves -> "
        "the two end keys are compared whenever both ends were moved inward "
        "(given bound or exclusive omitted bound), and crossed ends lead to "
        "the empty result. ERR-IGNORED: a local assigned from a repository "
        "function that reports failure by a negative constant (length of a "
        "lazy sequence, seek, search ...) is only compared with constants, "
        "returned or copied until a branch edge has excluded the negative "
        "values; any other use (arithmetic, call argument, index) means the "
        "computation goes on with -1 while the exception is pending. "
        "MINMAX-TABLE: minKey(b) / maxKey(b) of the Python leaves and tree "
        "nodes are walked by an abstract interpreter for every valuation of "
        "(bound given, container empty, position of the bound in the leaf it "
        "sorts into: before / hit / between / behind the keys, that leaf has a "
        "successor, child index 0, the child's smallest key exceeds the "
        "bound); the outcome - which key slot is returned, which child is "
        "asked, or ValueError - must equal the specification (a bound behind "
        "the last key of its leaf is answered by the next leaf's first key). "
        "RANGE-WIRING: C BTree_rangeSearch with both bounds given is walked "
        "with the four range arguments as roles (named after the parser's "
        "keyword list): the low end is searched with (min, low=1, "
        "excludemin), the high end with (max, low=0, excludemax), the "
        "sequence is built from (LOW, LOW offset, HIGH, HIGH offset), a "
        "search finding nothing gives the empty sequence, a failing one the "
        "error. "
        "FINDEND-TABLE: C BTree_findRangeEnd, descent included, is walked by "
        "an abstract interpreter over node roles for every valuation of (one "
        "or two interior levels, child index 0 or not at each level, leaf "
        "search fails / finds nothing on this side / finds the entry, low or "
        "high end, leaf has a successor): status, bucket and offset handed "
        "back must be the leaf's own answer, the first entry of the next leaf "
        "(low end), or the last entry of the last leaf under the deepest left "
        "sibling passed on the way down (high end). Correctness of the binary "
        "searches themselves (C01) and reachable tree shapes are not decided.")
    res.assumptions = ["the search index I is the index of the key if found, else the insertion index (BUCKET_SEARCH / _search contract, part of C01)"]
    out = engine.map_tus("sa.props.C02", "tu_check", use_cache=use_cache)
    n = 0
    spec_seek = rg.seek_spec()
    for fam, r in sorted(out.items()):
        res.findings.extend(r["findings"], fam)
        for found, low, excl in itertools.product((True, False), repeat=3):
            n += 1
            got = r["range"][repr((found, low, excl))]
            want = rg.range_spec(found, low, excl)
            if got[0] != want or not got[1]:
                res.findings.add(dict(
                    rule="RANGE-TABLE", function="Bucket_findRangeEnd",
                    file="src/BTrees/BucketTemplate.c", line=1,
                    construct="found=%s low=%s exclusive=%s -> %s%s (specified %s)" % (
                        found, low, excl, got[0], "" if got[1] else " without range test", want),
                    detail="the %s endpoint for a key that is %s, %s, is "
                           "computed as %s; the specification requires %s"
                           % ("low" if low else "high", "present" if found else "absent",
                              "exclusive" if excl else "inclusive", got[0], want), path=[]), fam)
        if isinstance(r["seek"], str):
            got_seek = None
            res.extra.setdefault("seek_algebra_not_applicable", {})[fam] = r["seek"]
        else:
            got_seek = [tuple(x) for x in r["seek"]]
        n += len(spec_seek)
        if got_seek is not None and sorted(got_seek, key=repr) != sorted(spec_seek, key=repr):
            extra = [x for x in got_seek if x not in spec_seek]
            missing = [x for x in spec_seek if x not in got_seek]
            res.findings.add(dict(
                rule="SEEK-ALGEBRA", function="BTreeItems_seek",
                file="src/BTrees/BTreeItemsTemplate.c", line=1,
                construct="loop effects %s (specified %s)" % (extra, missing),
                detail="(loop, move, pseudoindex', delta', currentoffset') of "
                       "BTreeItems_seek differ from the geometry of the leaf "
                       "chain: indexing a lazy sequence lands on the wrong "
                       "entry", path=[]), fam)
        for which, excl, many, single in itertools.product(("min", "max"), *[(True, False)] * 3):
            n += 1
            got = r["unb"][repr((which, excl, many, single))]
            want = rg.c_unbounded_spec(which, excl, many, single)
            if got != want:
                shape = got.startswith("depends on")
                res.findings.add(dict(
                    rule="RANGE-SHAPE" if shape else "UNBOUNDED-END", function="BTree_rangeSearch",
                    file="src/BTrees/BTreeTemplate.c", line=1,
                    construct="%s omitted, exclusive=%s, end leaf has %s, chain has %s: %s (specified %s)" % (
                        which, excl, "several entries" if many else "one entry",
                        "one leaf" if single else "several leaves", got, want),
                    detail="with the %s bound omitted the %s end of the range must be "
                           "the %s entry of the leaf chain, moved by one entry when "
                           "exclusive; how many leaves there are is a property of the "
                           "chain (next == NULL / last == first), not of the root's "
                           "child count" % (which, "low" if which == "min" else "high",
                                            "first" if which == "min" else "last"), path=[]), fam)
        for key in itertools.product((True, False), repeat=5):
            n += 1
            got = r["cross"][repr(key)]
            want = rg.c_cross_spec(*key)
            if not set(want) <= set(got):
                mg, emin, xg, emax, same = key
                res.findings.add(dict(
                    rule="ENDS-CROSS", function="BTree_rangeSearch",
                    file="src/BTrees/BTreeTemplate.c", line=1,
                    construct="min %s%s, max %s%s, ends in %s: tests %s (required %s)" % (
                        "given" if mg else "omitted", ", exclusive" if emin else "",
                        "given" if xg else "omitted", ", exclusive" if emax else "",
                        "the same leaf" if same else "different leaves", got or "none", want),
                    detail="both ends of the range were moved inward (by a given "
                           "bound or by excluding the first / last key), so they "
                           "may have crossed; without the %s comparison a crossed "
                           "pair of positions is returned as a non-empty range "
                           "that wraps around" % ("offset" if same else "end-key"), path=[]), fam)
    res.count("ENDS-CROSS", 32 * len(out))
    res.count("UNBOUNDED-END", 16 * len(out))
    res.count("RANGE-TABLE", 8 * len(out))
    res.count("SEEK-ALGEBRA", len(spec_seek) * len(out))
    res.count("GHOST-READ", sum(len(r["ghost_functions"]) for r in out.values()))
    res.floor("functions of the range machinery under the pin typestate (OO)", len(out["OO"]["ghost_functions"]), 8)
    res.count("ITER-ADVANCE", sum(r["iteradv"]["n"] for r in out.values()))
    res.floor("paths of BTreeIter_next that hand out an entry (OO)", out["OO"]["iteradv"]["n"], 3)
    res.floor("kinds of advance seen in BTreeIter_next (OO: stay / next / end)", len(out["OO"]["iteradv"]["kinds"]), 3)
    res.count("SEEK-NET", sum(r["seeknet"]["n"] for r in out.values()))
    res.floor("successful paths of BTreeItems_seek interpreted (OO)", out["OO"]["seeknet"]["n"], 10)
    res.floor("kinds of moves seen by SEEK-NET (OO: within / next / prev)", len(out["OO"]["seeknet"]["kinds"]), 3)
    res.count("BOUND-NORM", sum(r["bn"] for r in out.values()))
    pt = rg.py_range_table()
    for k, v in sorted(pt.items()):
        want = rg.py_range_spec(*k)
        if v != want:
            res.findings.add(dict(
                rule="RANGE-TABLE", function="_BucketBase._range", file=rg.REL, line=1,
                construct="%s given=%s found=%s exclusive=%s -> %s (specified %s)" % (k + (v, want)),
                detail="the slice %s of _range deviates from the specification"
                       % ("start" if k[0] == "min" else "end"), path=[]))
    res.count("PY-RANGE-TABLE", len(pt))
    it = rg.iter_continue()
    n_it = 0
    for label, args in rg.ITER_ARGS:
        for ys, visited in sorted(rg.iter_continue(args).items()):
            n_it += 1
            want = rg.iter_spec(ys)
            if visited != want:
                res.findings.add(dict(
                    rule="ITER-CONTINUE", function="_TreeItems.__iter__", file=rg.REL, line=1,
                    construct="%sleaves yielding %s: visits %s (specified %s)" % (
                        "" if args is None else label + ", ", ys, visited, want),
                    detail="the lazy sequence must continue with the next leaf "
                           "unless a leaf after the first yielded nothing (the "
                           "first leaf may legitimately yield nothing: the lower "
                           "bound falls into the gap after its last key, or its "
                           "only key is the excluded overall smallest)", path=[]))
    res.count("ITER-CONTINUE", n_it)
    rg.bound_norm_py(res)
    rg.tree_exclude_py(res)
    mm = minmax.py_check(res)
    res.floor("translation units", len(out), 22)
    res.floor("results of error-reporting repository functions held in locals (OO)", out["OO"]["ei"], 25)
    res.count("ERR-IGNORED", sum(r["ei"] for r in out.values()))
    res.count("FINDEND-TABLE", sum(r["fe"] for r in out.values()))
    res.count("C-MINMAX-TABLE", sum(r["mx"] for r in out.values()))
    res.count("RANGE-WIRING", sum(r["rw"] for r in out.values()))
    res.floor("valuations of the tree-level endpoint search (OO)", out["OO"]["fe"], 72)
    res.samples = [{"c_range_table_OO": out["OO"]["range"]}, {"seek_effects_OO": out["OO"]["seek"]}, {"seek_net_OO": out["OO"]["seeknet"]},
                   {"python_iter_table": {repr(k): v for k, v in it.items()}},
                   {"python_minmax_tables": mm}]
    res.units = {"translation_units": len(out)}
    return res
