"""C06 - serialized state round-trips, identically in C and Python."""
import ast

from .. import engine, pyfront
from ..common import AnalysisError, SRC
from ..rules import stateshape as ss, convert, changed, pychanged


def tu_check(tu):
    facts = ss.c_facts(tu)
    f1, n1 = ss.compare_c(facts)
    f2, n2 = ss.type_names(tu)
    f3, emb = changed.embedded_leaf(tu)
    return dict(findings=f1 + f2 + [x for x in f3 if x["function"] == "BTree_getstate"],
                facts=facts, n=n1 + n2, embed=emb, dtype=convert.dtype_row(tu))


def fix_pickle(res):
    """_fix_pickle maps every Python class to the C class of the same family
    and kind: raw_name = prefix + kind, py_name = raw_name + 'Py'."""
    tree = pyfront.base_py()
    fn = pyfront.functions(tree).get("_fix_pickle")
    if fn is None:
        raise AnalysisError("anchor vanished: _base._fix_pickle")
    src = pyfront.unparse(fn)
    n = 0
    for need, why in (
            ("for name in ('Bucket', 'Set', 'BTree', 'TreeSet', 'TreeIterator')", "all four kinds are swapped"),
            ("raw_name = mod_prefix + name", "the C name is prefix + kind"),
            ("py_name = raw_name + 'Py'", "the Python class is named <C name>Py"),
            ("py_type._BTree_reduce_as = raw_type", "the Python class pickles as the C class"),
            ("mod_prefix = mod_name.split('.')[-1][:2]", "the prefix is taken from the module name")):
        n += 1
        if need not in src:
            res.findings.add(dict(
                rule="TYPE-NAMES", function="_fix_pickle", file=SRC + "/_base.py", line=fn.lineno,
                construct="_fix_pickle lacks `%s`" % need,
                detail="the class swap that makes Python objects pickle under "
                       "the C class names changed (%s)" % why, path=[]))
    # __reduce__ uses the swapped class
    base = pyfront.classes(tree)["_Base"]
    red = pyfront.class_members(base).get("__reduce__")
    n += 1
    if not isinstance(red, ast.FunctionDef) or "typ = self.__class__" not in pyfront.unparse(red):
        res.findings.add(dict(
            rule="TYPE-NAMES", function="_Base.__reduce__", file=SRC + "/_base.py", line=base.lineno,
            construct="__reduce__ does not use the swapped class",
            detail="Python objects would pickle under their own (Py) class names", path=[]))
    res.count("PY-TYPE-NAMES", n)


def run(tier="quick", seed=0, use_cache=True):
    res = engine.Result("C06")
    res.rules = ["STATE-SHAPE", "TYPE-NAMES", "DTYPE-TABLE", "EMBEDDED-LEAF", "PY-NATIVE-CALL"]
    res.explanation = (
        "The shape of a node's serialized state is fixed by a handful of code "
        "facts: Py_BuildValue / PyArg_ParseTuple formats, tuple sizes, the "
        "order in which keys, values and children are laid out, the length "
        "arithmetic of the readers, None for the empty tree, the guard of the "
        "embedded single-leaf form. They are extracted from the C writers and "
        "readers of every one of the 22 translation units and from the Python "
        "__getstate__/__setstate__ methods, and compared with the common "
        "format leaf: (items,)|(items,next) with items k0,v0,.. / k0,k1,..; "
        "tree: None | ((leafstate,),) | ((c0,k1,c1,..), firstbucket) - so "
        "that writers, readers and the two implementations agree. The 22x4 "
        "tp_name strings equal the names the Python class swap "
        "(_fix_pickle / __reduce__) pickles under; resolved C slot types "
        "equal the Python struct formats. Byte identity of pickles over "
        "histories and protocols, and float32 rounding of float values "
        "(Python keeps the double - a divergence recorded in DESIGN.md), "
        "are not decided.")
    res.assumptions = ["pickle / copy machinery of persistent.Persistent is trusted"]
    out = engine.map_tus("sa.props.C06", "tu_check", use_cache=use_cache)
    for fam, r in sorted(out.items()):
        res.findings.extend(r["findings"], fam)
    res.floor("translation units", len(out), 22)
    res.count("STATE-SHAPE", sum(r["n"] for r in out.values()))
    res.count("EMBEDDED-LEAF", len(out))
    ss.py_check(res)
    fix_pickle(res)
    convert.check_dtype_table(res, {f: r["dtype"] for f, r in out.items()})
    # stored values must be the normalised plain values, or the Python
    # pickles differ from the C ones (bool / int subclasses / Fractions)
    convert.check_py_native(res)
    # the Python embedded-leaf guard (shared with C04)
    tmp = engine.Result("C06")
    pychanged.check(tmp)
    for f in tmp.findings:
        if f["rule"] == "PY-EMBEDDED-LEAF" and "__getstate__" in (f.get("function") or ""):
            res.findings.add(f)
    res.samples = [{"codec_facts_OO": out["OO"]["facts"]},
                   {"embedded_form_guard_OO": out["OO"]["embed"]}]
    res.units = {"translation_units": len(out), "python_codecs": 6}
    from ..rules import typeexact
    typeexact.extend(res, use_cache)
    res.explanation += ' TYPE-EXACT: state loading classifies children through subclass-tolerant type tests (an application subclass of a leaf type must load).'
    from ..rules import convhelpers
    convhelpers.extend(res, use_cache, ("TO-OBJECT",))
    res.explanation += ' TO-OBJECT: integral conversions into PyLong_From* constructors are value preserving, so __getstate__ emits the stored numbers.'
    return res
