"""C06 - serialized state round-trips, identically in C and Python."""
import ast

from .. import engine, pyfront
from ..common import AnalysisError, SRC
from ..rules import stateshape as ss, convert, changed, pychanged


def tu_check(tu):
    facts = ss.c_facts(tu)
    f1, n1 = ss.compare_c(facts)
    f2, n2 = ss.type_names(tu)
    f3, emb = changed.embedded_leaf(tu)
    from ..rules import samevalue, sepguard
    f1 = f1 + samevalue.analyse_tu(tu)["findings"] + sepguard.c_check(tu)["findings"]
    return dict(findings=f1 + f2 + [x for x in f3 if x["function"] == "BTree_getstate"],
                facts=facts, n=n1 + n2, embed=emb, dtype=convert.dtype_row(tu))


def fix_pickle(res):
    """The class swap that makes Python objects pickle under the C names
    (facts keyed on attribute names, see stateshape.py_class_swap) and the
    dataflow of __reduce__: the class it returns comes from the `__class__`
    property, which returns `_BTree_reduce_as` of the type."""
    ss.py_class_swap(res)
    tree = pyfront.base_py()
    base = pyfront.classes(tree)["_Base"]
    mem = {}
    for n in ast.walk(base):
        if isinstance(n, ast.FunctionDef):
            mem[n.name] = n
    n = 0
    red = mem.get("__reduce__")
    n += 1
    ok = False
    if isinstance(red, ast.FunctionDef):
        # the returned tuple's class element is a name assigned from self.__class__
        names = set(pyfront.unparse(a.targets[0]) for a in ast.walk(red)
                    if isinstance(a, ast.Assign) and pyfront.unparse(a.value) == "self.__class__")
        for r in ast.walk(red):
            if isinstance(r, ast.Return) and r.value is not None:
                used = set(x.id for x in ast.walk(r.value) if isinstance(x, ast.Name))
                if names & used or "self.__class__" in pyfront.unparse(r.value):
                    ok = True
    if not ok:
        res.findings.add(dict(
            rule="TYPE-NAMES", function="_Base.__reduce__", file=SRC + "/_base.py", line=base.lineno,
            construct="__reduce__ does not use the swapped class",
            detail="Python objects would pickle under their own (Py) class names", path=[]))
    cp = mem.get("__class__")
    n += 1
    if not isinstance(cp, ast.FunctionDef) or not any(
            isinstance(x, ast.Attribute) and x.attr == "_BTree_reduce_as" for r in ast.walk(cp)
            if isinstance(r, ast.Return) and r.value is not None for x in ast.walk(r.value)):
        res.findings.add(dict(
            rule="TYPE-NAMES", function="_Base.__class__", file=SRC + "/_base.py", line=base.lineno,
            construct="the __class__ property does not return _BTree_reduce_as",
            detail="the class __reduce__ writes would be the *Py class", path=[]))
    res.count("PY-TYPE-NAMES", n)


def run(tier="quick", seed=0, use_cache=True):
    res = engine.Result("C06")
    res.rules = ["STATE-SHAPE", "TYPE-NAMES", "DTYPE-TABLE", "EMBEDDED-LEAF", "PY-NATIVE-CALL", "SAME-VALUE", "SEP-REFRESH", "PY-CLASS-IDENTITY"]
    res.explanation = (
        "The shape of a node's serialized state is fixed by a handful of code "
        "facts: Py_BuildValue / PyArg_ParseTuple formats, tuple sizes, the "
        "order in which keys, values and children are laid out, the length "
        "arithmetic of the readers, None for the empty tree, the guard of the "
        "embedded single-leaf form. They are extracted from the C writers and "
        "readers of every one of the 22 translation units and from the Python "
        "__getstate__/__setstate__ methods, and compared with the common "
        "format leaf: (items,)|(items,next) with items k0,v0,.. / k0,k1,..; "
        "tree: None | ((leafstate,),) | ((c0,k1,c1,..), firstbucket) - so "
        "that writers, readers and the two implementations agree. The 22x4 "
        "tp_name strings equal the names the Python class swap "
        "(_fix_pickle / __reduce__) pickles under; resolved C slot types "
        "equal the Python struct formats. Byte identity of pickles over "
        "histories and protocols, and float32 rounding of float values "
        "(Python keeps the double - a divergence recorded in DESIGN.md), "
        "are not decided."
        ' SAME-VALUE and SEP-REFRESH as conditions of equal states in C and Python. PY-CLASS-IDENTITY: self.__class__ - a property naming the pickle replacement class - is never an operand of a type test or a constructor.')
    res.assumptions = ["pickle / copy machinery of persistent.Persistent is trusted"]
    out = engine.map_tus("sa.props.C06", "tu_check", use_cache=use_cache)
    for fam, r in sorted(out.items()):
        res.findings.extend(r["findings"], fam)
    res.floor("translation units", len(out), 22)
    res.count("STATE-SHAPE", sum(r["n"] for r in out.values()))
    res.count("EMBEDDED-LEAF", len(out))
    ss.py_check(res)
    fix_pickle(res)
    convert.check_dtype_table(res, {f: r["dtype"] for f, r in out.items()})
    # stored values must be the normalised plain values, or the Python
    # pickles differ from the C ones (bool / int subclasses / Fractions)
    convert.check_py_native(res)
    from ..rules import samevalue, sepguard
    samevalue.py_check(res)
    sepguard.py_check(res)
    from ..rules import pyclassid
    pyclassid.py_check(res)
    # the Python embedded-leaf guard (shared with C04)
    tmp = engine.Result("C06")
    pychanged.check(tmp)
    for f in tmp.findings:
        if f["rule"] == "PY-EMBEDDED-LEAF" and "__getstate__" in (f.get("function") or ""):
            res.findings.add(f)
    res.samples = [{"codec_facts_OO": out["OO"]["facts"]},
                   {"embedded_form_guard_OO": out["OO"]["embed"]}]
    res.units = {"translation_units": len(out), "python_codecs": 6}
    from ..rules import typeexact
    typeexact.extend(res, use_cache)
    res.explanation += ' TYPE-EXACT: state loading classifies children through subclass-tolerant type tests (an application subclass of a leaf type must load).'
    from ..rules import convhelpers
    convhelpers.extend(res, use_cache, ("TO-OBJECT",))
    res.explanation += ' TO-OBJECT: integral conversions into PyLong_From* constructors are value preserving, so __getstate__ emits the stored numbers.'
    return res
