"""C16 - references and memory: ownership discipline of object references."""
from .. import engine
from ..rules import refs, cursor, splitcommit, alloc


def tu_check(tu):
    r = refs.analyse_tu(tu)
    c = cursor.analyse_tu(tu)
    sp = refs.slot_pair(tu)
    sf = refs.setitem_fresh(tu)
    sc = splitcommit.analyse_tu(tu)
    nr = alloc.analyse_null_results(tu)
    from ..rules import shiftbounds
    sb = shiftbounds.analyse_tu(tu)
    from ..rules import realtype, dangling
    dg = dangling.analyse_tu(tu)
    r["stats"]["borrowed_releases"] = dg["stats"]["borrowed_releases"]
    r["findings"] = r["findings"] + dg["findings"]
    rt = realtype.analyse_tu(tu)
    r["stats"]["real_type_tests"] = rt["stats"]["real_type_tests"]
    r["findings"] = r["findings"] + rt["findings"] + c["findings"] + sp["findings"] + sf["findings"] + sc["findings"] + nr["findings"] + sb["findings"]
    r["stats"]["shift_bounds_decided"] = sb["stats"]["shift_bounds_decided"]
    r["stats"]["null_result_sites"] = nr["stats"]["null_result_sites"]
    r["stats"]["setitem_sites"] = sf["sites"]
    r["stats"]["split_sites"] = sc["stats"]["split_call_sites"] + sc["stats"]["split_commit_stores"]
    r["stats"]["cursor"] = c["stats"]
    r["stats"]["slot_stores"] = sp["stores"]
    return r


def run(tier="quick", seed=0, use_cache=True):
    res = engine.Result("C16")
    res.rules = ["LOCAL-REF", "CURSOR-HOLD", "SLOT-PAIR", "RELEASE-ATTACHED", "SETITEM-FRESH", "SPLIT-COMMIT", "NULL-RESULT", "SHIFT-BOUNDS", "REAL-TYPE", "USE-AFTER-RELEASE"]
    res.explanation = (
        "Ownership dataflow (alias classes with an owned-reference count, "
        "NULL-ness refinement, out-parameter and returns-new-reference "
        "summaries inferred by fixpoint) over the clang CFG of every function "
        "of the 22 translation units: every reference a function acquires "
        "(new-reference API/repo calls, Py_INCREF) is released, returned, "
        "stored into an owning slot or stolen on every path to every return, "
        "including the error exits; a pointer known to be NULL never reaches "
        "Py_DECREF/Py_INCREF. CURSOR-HOLD: every function installed in the "
        "SetIteration.next slot preserves 'cached key owned iff position > 0' "
        "at every return and never releases it twice (object-key TUs). "
        "SLOT-PAIR: every COPY_KEY / COPY_VALUE into a container slot of an "
        "object-keyed / -valued family is followed by exactly one INCREF of "
        "that slot (copy) or none when the reference is taken over from the "
        "unused key slot 0 of a new sibling (move), before the slot is "
        "overwritten or the function returns. RELEASE-ATTACHED: a key, value, "
        "separator, child, successor or first-bucket slot of a Bucket / BTree "
        "node is never released in place, and a reference loaded from such a "
        "slot into a local is released only after the slot was overwritten, "
        "shifted over (memmove) or cut off by a length store, or after the "
        "whole array was detached from its node - because releasing an object "
        "can run arbitrary code (finalizer, weak-reference callback) that looks "
        "at the container (three accepted idioms: releases of nodes known to be "
        "empty / to hold native data only, listed in the evidence). SETITEM-FRESH: the unchecked PyTuple_SET_ITEM "
        "/ PyList_SET_ITEM (no release of the previous item) are applied only "
        "to containers the function created empty. SPLIT-COMMIT: a split "
        "function has no failure exit once the new sibling's len is set (its "
        "destructor would release entries the original node still owns), and "
        "its caller none before the sibling is stored as a child. NULL-RESULT: the result of a repository function that has a `return NULL` path (a node that cannot be activated, an empty tree) is tested before it is dereferenced or passed to a NULL-intolerant API, on every path; SHIFT-BOUNDS: every memmove within one keys / values / data array reads only entries below the length the node had on entry (affine offsets, the net len-- / ++len effect on the path taken into account) (the ALLOC-CHECKED dataflow of C17 over the inferred set of may-return-NULL functions). Decides the local half of 'exactly one "
        "reference per stored object / no leak on any path'; ownership of "
        "node fields across functions and out-of-bounds accesses need a "
        "sanitizer run and are not decided."
        " SHIFT-BOUNDS: in-place memmove shifts read only entries the node held. REAL-TYPE as in C10. USE-AFTER-RELEASE: a local that only borrows a container field's reference is not used after that reference was released.")
    res.assumptions = [
        "table of new-reference / stealing CPython APIs in sa/rules/refs.py",
        "module initialisation is out of scope",
    ]
    out = engine.map_tus("sa.props.C16", "tu_check", use_cache=use_cache)
    tot = {"functions": 0, "newref_sources": 0, "newref_functions": 0}
    for fam, r in sorted(out.items()):
        res.findings.extend(r["findings"], fam)
        for k in tot:
            tot[k] += r["stats"][k]
    oo = out["OO"]["stats"]
    res.units = {"translation_units": len(out), "functions": tot["functions"]}
    res.floor("new-reference acquisition sites (OO)", oo["newref_sources"], 100)
    res.floor("inferred returns-new-reference functions (OO)", oo["newref_functions"], 50)
    res.floor("out-parameter ownership summaries (OO)", len(oo["out_owned"]), 1)
    res.floor("translation units", len(out), 22)
    res.count("LOCAL-REF", tot["newref_sources"])
    cur_ev = sum(r["stats"]["cursor"].get("events", 0) for r in out.values())
    cur_tus = sum(1 for r in out.values() if r["stats"]["cursor"].get("functions"))
    res.floor("object-key TUs with cursor functions", cur_tus, 5)
    res.floor("cursor key acquire/release events", cur_ev, 50)
    res.count("CURSOR-HOLD", cur_ev)
    slot = sum(r["stats"]["slot_stores"] for r in out.values())
    res.floor("call sites of may-return-NULL repository functions (OO)", oo["null_result_sites"], 45)
    res.floor("in-place array shifts with a decided bound (OO)", oo["shift_bounds_decided"], 1)
    res.floor("real-type tests against the unit's type objects (OO)", oo["real_type_tests"], 4)
    res.count("REAL-TYPE", sum(r["stats"]["real_type_tests"] for r in out.values()))
    res.floor("releases of references borrowed from a container field (OO)", oo["borrowed_releases"], 3)
    res.count("USE-AFTER-RELEASE", sum(r["stats"]["borrowed_releases"] for r in out.values()))
    res.count("SHIFT-BOUNDS", sum(r["stats"]["shift_bounds_decided"] for r in out.values()))
    res.count("NULL-RESULT", sum(r["stats"]["null_result_sites"] for r in out.values()))
    res.floor("key/value slot copies in object families", slot, 60)
    res.count("SLOT-PAIR", slot)
    res.floor("in-place slot release sites incl. accepted idioms (OO)", oo["slot_release_sites"], 3)
    res.floor("releases of references taken out of a node slot (OO)", oo["slot_takeover_releases"], 3)
    res.floor("loads from node slots into tracked locals (OO)", oo["slot_loads"], 40)
    res.count("RELEASE-ATTACHED", sum(r["stats"]["slot_release_sites"] + r["stats"]["slot_takeover_releases"]
                                      for r in out.values()))
    acc = set()
    for r in out.values():
        acc |= set(r["stats"]["attached_accepted"])
    res.extra["release_attached_accepted_idioms"] = sorted(acc)
    res.floor("unchecked SET_ITEM sites (OO)", oo["setitem_sites"], 10)
    res.count("SETITEM-FRESH", sum(r["stats"]["setitem_sites"] for r in out.values()))
    res.count("SPLIT-COMMIT", sum(r["stats"]["split_sites"] for r in out.values()))
    res.extra["cursor_accepted_idioms"] = oo["cursor"].get("accepted")
    res.extra["out_owned_summaries_OO"] = oo["out_owned"]
    res.samples = [
        {"rule": "LOCAL-REF", "obligation": "lowbucket (owned iff BTree_findRangeEnd returned > 0) is released on every exit of BTree_rangeSearch"},
        {"rule": "LOCAL-REF", "obligation": "args = Py_BuildValue(\"OO\", self, other) in bucket_sub is released after difference_m"},
        {"rule": "RELEASE-ATTACHED", "obligation": "old_key = self->keys[i] in _bucket_set is released only after self->len-- / memmove removed the slot"},
        {"rule": "LOCAL-REF", "obligation": "iter == NULL never reaches Py_DECREF(iter) in update_from_seq"},
    ]
    return res
