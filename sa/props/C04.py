"""C04 - every change reaches the database: change registration."""
from .. import engine
from ..rules import changed


def tu_check(tu):
    r = changed.analyse_tu(tu)
    f2, facts = changed.embedded_leaf(tu)
    from ..rules import samevalue
    sv = samevalue.analyse_tu(tu)
    r["findings"] = r["findings"] + f2 + sv["findings"]
    r["stats"]["embedded_leaf"] = facts
    r["stats"]["value_store_functions"] = sv["n"]
    return r


def run(tier="quick", seed=0, use_cache=True):
    res = engine.Result("C04")
    res.rules = ["CHANGED-FOLLOWS", "CALLER-MARKS", "EMBEDDED-LEAF",
                 "PY-CHANGED-FOLLOWS", "PY-EMBEDDED-LEAF", "SAME-VALUE"]
    res.explanation = (
        "Must-follow dataflow over the clang AST CFG of all 22 translation "
        "units: every store to a persisted field (len, next, firstbucket, "
        "keys[], values[], data[].key/child, memmove/memcpy into those "
        "arrays, also through interior pointers such as d = self->data+min) "
        "of a non-fresh persistent node marks the node dirty; "
        "cPersistenceCAPI->changed(node) (directly or through the `changed` "
        "accumulator, flag-sensitively) clears it; a success return of a "
        "registered entry point with a dirty node is a violation. Helpers "
        "that leave a parameter dirty export a caller-must-mark summary that "
        "is checked at every call site. EMBEDDED-LEAF: the tree-registration "
        "guard in _BTree_set is implied by the embedding guard of "
        "BTree_getstate (atoms len==1, oid==NULL). Python side: in-place "
        "list mutation on self must be accompanied by _p_changed or a "
        "persistent attribute assignment on the same path."
        ' SAME-VALUE: the equal-value shortcut that skips store and registration is switched off for object values (C: no (in)equality test of an object value slot in a storing function; Python: the comparison is guarded by a class attribute that is False for object values).')
    res.assumptions = [
        "state loaders (__setstate__) and lifecycle slots legitimately rewrite nodes without registering",
        "first-leaf creation in _BTree_set registers through the embedded-leaf clause (accepted idiom, DESIGN 4.2)",
        "decides the registration mechanism; commit/reload/abort equality needs a data manager and is not decided",
    ]
    out = engine.map_tus("sa.props.C04", "tu_check", use_cache=use_cache)
    muts = chg = 0
    for fam, r in sorted(out.items()):
        res.findings.extend(r["findings"], fam)
        muts += r["stats"]["mutation_sites"]
        chg += r["stats"]["changed_calls"]
    oo = out["OO"]["stats"]
    res.units = {"translation_units": len(out),
                 "functions": sum(r["stats"]["functions"] for r in out.values())}
    res.floor("registration calls (OO)", oo["changed_calls"], 7)   # 10 today; a floor, not a count: one deleted call must be reported by the rule, not here
    res.floor("mutation sites (OO)", oo["mutation_sites"], 60)
    res.floor("caller-must-mark summaries (OO)", len(oo["dirties"]), 8)
    res.floor("translation units", len(out), 22)
    res.count("CHANGED-FOLLOWS", muts)
    res.count("CALLER-MARKS", sum(len(r["stats"]["dirties"]) for r in out.values()))
    res.count("EMBEDDED-LEAF", 3 * len(out))
    res.extra["caller_must_mark_OO"] = oo["dirties"]
    res.extra["accepted_idioms"] = oo["accepted"]
    res.extra["embedded_leaf_OO"] = oo["embedded_leaf"]
    res.samples = [
        {"rule": "CHANGED-FOLLOWS", "obligation": "self->len-- in _bucket_set is followed by PER_CHANGED(self) on every success return"},
        {"rule": "CALLER-MARKS", "obligation": "BTree_grow(self, min, noval) in _BTree_set is followed by changed = 1 -> PER_CHANGED(self)"},
        {"rule": "EMBEDDED-LEAF", "obligation": oo["embedded_leaf"]},
    ]
    # Python side
    try:
        from ..rules import pychanged
    except ImportError:
        pychanged = None
    if pychanged is not None:
        pychanged.check(res)
        from ..rules import samevalue
        samevalue.py_check(res)
    return res
