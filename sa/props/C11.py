"""C11 - multiunion is the exact sorted union for every integer-key family."""
import ast

from .. import engine, pyfront
from ..common import AnalysisError, SRC
from ..rules import radix


def tu_check(tu):
    r = radix.analyse_tu(tu)
    if r["stats"]["has_radix"]:
        g = radix.append_guard(tu)
        r["findings"] += [f for f in g["findings"] if f["function"] in ("multiunion_m", "bucket_append")]
        r["stats"]["append_sites"] = g["sites"]
    from ..rules import pins
    gh, ghf = pins.ghost_reads_in(tu, ["multiunion_m"])
    r["findings"] = r["findings"] + gh
    r["stats"]["ghost_functions"] = len(ghf)
    return r


def py_multiunion(res):
    tree = pyfront.base_py()
    fn = pyfront.functions(tree).get("multiunion")
    if fn is None:
        raise AnalysisError("anchor vanished: _base.multiunion")
    loops = [n for n in fn.body if isinstance(n, ast.For)]
    if len(loops) != 1:
        raise AnalysisError("unrecognised idiom: _base.multiunion")
    loop = loops[0]
    n = 2
    skips = [x for x in ast.walk(loop) if isinstance(x, (ast.Continue, ast.Break, ast.Return))]
    upd = [st for st in loop.body if isinstance(st, ast.Expr) and isinstance(st.value, ast.Call)
           and pyfront.unparse(st.value.func) == "result.update"]
    if skips or len(upd) != 1:
        res.findings.add(dict(
            rule="PY-MULTIUNION", function="multiunion", file=SRC + "/_base.py", line=loop.lineno,
            construct="an operand can be skipped before result.update (%s)" % (
                ", ".join(sorted(set(type(x).__name__ for x in skips))) or "update not unconditional"),
            detail="every element of the input sequence (sets, mappings, "
                   "iterables and bare integers - including 0) must be "
                   "merged into the result; a continue/break/conditional "
                   "update drops operands", path=[]))
    res.count("PY-MULTIUNION", n)


def run(tier="quick", seed=0, use_cache=True):
    res = engine.Result("C11")
    res.rules = ["RADIX-SIGN", "HIST-DIM", "UNIQ-COPY", "APPEND-GUARD", "RESULT-LEN", "PY-MULTIUNION", "GHOST-READ"]
    res.explanation = (
        "For the 16 integer-key translation units (each with its own resolved "
        "element type): the constant byte ranges in which the final radix "
        "pass lays out the most significant byte are extracted by evaluating "
        "the pass-selection conditions (typed constant folding of "
        "`(element_type)-1 > 0`, `bytenum < sizeof(element_type)-1`) and must "
        "be 0x80..0xff,0x00..0x7f iff the key type is signed and 0x00..0xff "
        "iff unsigned; the histogram has one row per key byte and every row "
        "is filled; uniq() reaches every non-trivial return only through the "
        "`in != out` copy decision and writes into the caller's array; "
        "multiunion_m appends only under the capacity test and takes the "
        "result length from the sorter; the Python fallback merges every "
        "operand unconditionally. Correctness of quicksort / insertion sort "
        "as algorithms is not decided.")
    res.assumptions = ["little/big endian handling of the byte pointer is trusted", "quicksort correctness not decided"]
    out = engine.map_tus("sa.props.C11", "tu_check", use_cache=use_cache)
    radix_tus = {f: r for f, r in out.items() if r["stats"]["has_radix"]}
    for fam, r in sorted(out.items()):
        res.findings.extend(r["findings"], fam)
    res.floor("integer-key translation units with the sorter", len(radix_tus), 16)
    res.floor("translation units", len(out), 22)
    res.count("GHOST-READ", sum(r["stats"].get("ghost_functions", 0) for r in out.values()))
    res.floor("functions of multiunion under the pin typestate (II)", out["II"]["stats"].get("ghost_functions", 0), 1)
    res.count("RADIX-SIGN", 2 * len(radix_tus))
    res.count("HIST-DIM", len(radix_tus))
    res.count("UNIQ-COPY", sum(r["stats"]["uniq_returns"] for r in radix_tus.values()))
    res.count("APPEND-GUARD", sum(r["stats"].get("append_sites", 0) for r in radix_tus.values()))
    py_multiunion(res)
    res.extra["element_types"] = {f: r["stats"]["element_type"] for f, r in sorted(radix_tus.items())}
    res.extra["last_pass_order"] = {f: r["stats"]["last_pass"] for f, r in sorted(radix_tus.items())}
    res.samples = [{"family": f, "element_type": r["stats"]["element_type"],
                    "msb_order": r["stats"]["last_pass"]} for f, r in sorted(radix_tus.items())[:6]]
    res.units = {"translation_units": len(out)}
    return res
