"""C12 - weighted union / intersection follow the documented formula."""
from .. import engine
from ..rules import setops
from . import _setop_common as common

ENTRIES = ("weightedUnion", "weightedIntersection")


def tu_check(tu):
    return {"tables": common.tables_for_tu(tu, ENTRIES), "findings": [],
            "has": sorted(e for e in ENTRIES if setops.ENTRY[e] in tu.funcs)}


def run(tier="quick", seed=0, use_cache=True):
    res = engine.Result("C12")
    res.rules = ["WEIGHT-TABLE", "MERGE-EXPR", "SWAP-CONSIST", "PY-MERGE-WIRING"]
    res.exhaustive = True
    res.explanation = (
        "Decision-table extraction for weightedUnion / weightedIntersection: "
        "for every combination of None-ness and kind of the operands, cursor "
        "liveness and comparison sign, the emitted value is computed as a "
        "polynomial over (v1, v2, w1, w2) by propagating symbolic weights and "
        "values through the code - through the MERGE / MERGE_WEIGHT / "
        "MERGE_DEFAULT macro expansions of each numeric value family in C, "
        "the operand swap (cursors, selectors and weights must move together; "
        "a narrowing conversion of a weight on the way shows up as a factor "
        "NARROWED), and in Python through the functions _module_builder "
        "actually wires for each value datatype (_base.MERGE, "
        "datatype.apply_weight, datatype.multiplication_identity). Emitted "
        "key, value polynomial, advanced cursors, result kind and returned "
        "weight must equal the table written from Interfaces.py "
        "(v1*w1 + v2*w2; absent key counts 0; set member counts 1; both sets "
        "-> set with weight 1 resp. w1+w2; None short-circuits). Arithmetic on "
        "concrete values (overflow, float rounding) is not decided.")
    res.assumptions = ["polynomial identity over Z stands for the value arithmetic (no overflow / rounding considered)"]
    out = engine.map_tus("sa.props.C12", "tu_check", use_cache=use_cache)
    n = common.compare(res, out, ENTRIES, "WEIGHT-TABLE")
    res.count("WEIGHT-TABLE", n)
    with_w = sorted(f for f, r in out.items() if r["has"])
    res.floor("numeric-valued families with weighted operations", len(with_w), 16)
    res.floor("translation units", len(out), 22)
    res.extra["families_with_weighted_ops"] = with_w
    w = setops.py_value_wiring()
    res.extra["python_wiring"] = {c: {k: (getattr(v, "name", v)) for k, v in d.items()} for c, d in w.items()}
    res.count("PY-MERGE-WIRING", 3 * len(w))
    t = setops.py_table("weightedUnion", w["F"])
    res.samples = [{"situation": k, "action": list(v)} for k, v in list(t.items())[3:10]]
    res.units = {"translation_units": len(out), "python_functions": 2}
    from ..rules import cmpmacro
    cmpmacro.extend(res, use_cache, ("TEST_KEY_SET_OR",))
    res.explanation += " CMP-MACRO: the key comparison the table's sign atom stands for is a genuine three-way comparison in every family."
    return res
