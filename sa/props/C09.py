"""C09 - the C extension and the pure-Python fallback are interchangeable."""
from .. import engine
from ..rules import convert, changed, pytaint, registry, sizes, slotsig, errexc


def tu_check(tu):
    c = changed.analyse_conv(tu)
    nw = convert.analyse_narrowing(tu)
    # integer conversions only: the float32 narrowing is C13's (known finding there)
    nw["findings"] = [x for x in nw["findings"] if "float" not in x["construct"]]
    c["findings"] = c["findings"] + nw["findings"]
    c["stats"] = dict(c["stats"], narrowing_slot_stores=nw["stats"].get("slot_stores", 0))
    return dict(findings=c["findings"], stats=c["stats"], dtype=convert.dtype_row(tu),
                modfuncs=registry.module_functions(tu), sizes=sizes.c_facts(tu),
                exc=sizes.c_read_translation(tu), slots=slotsig.analyse_tu(tu),
                leak=errexc.analyse_leak(tu))


def run(tier="quick", seed=0, use_cache=True):
    res = engine.Result("C09")
    res.rules = ["PY-TAINT", "CONV-BEFORE-MUT", "GROW-ROLLBACK", "READ-ABSENCE",
                 "DTYPE-TABLE", "FAMILY-REG", "SIZE-WIRING", "SPLIT-POINT", "PY-NATIVE-CALL", "SLOT-SIG", "EXC-LEAK", "NARROW-GUARD"]
    res.explanation = (
        "Agreement of the two implementations on the structural points the "
        "property names: (1) conversion discipline - Python: taint analysis of "
        "every key/value parameter of the shared public methods (converted "
        "before the conversion-free layer, reads translate TypeError to "
        "absence); C: flag-sensitive dataflow showing no node mutation on a "
        "path with a failed conversion, no conversion failure after a "
        "mutation, and rollback of a first leaf grown into an empty tree on "
        "every later error exit; C read entry points translate a conversion "
        "TypeError into KeyError / default / 0; (2) tables that must agree: "
        "resolved C slot types vs Python struct formats per family, family "
        "registries, per-family inventory of module functions, split "
        "thresholds (leaf > max_leaf_size, interior > max_internal_size, root "
        ">= 2*max_internal_size) and split points (len/2) in the five "
        "splitting functions; (3) SLOT-SIG - every function cast into a "
        "type-object slot returns the class of value the slot's type promises "
        "(a narrower integer makes the error return unrecognisable: "
        "SystemError in place of the function's exception, where the Python "
        "class raises the original one); (4) EXC-LEAK - no function returns a value that is not its error value on a path where a failing API / activation has certainly left an exception set (exception-state dataflow, error conventions of callees read off their return statements; accepted idiom: boolean 0 = failure functions) - the C side would raise SystemError where the Python class raises the original exception. Equality of results, shapes and pickles over "
        "call histories is not decided.")
    res.assumptions = ["public method tables of the C types define the shared API"]
    out = engine.map_tus("sa.props.C09", "tu_check", use_cache=use_cache)
    tot = {}
    for fam, r in sorted(out.items()):
        res.findings.extend(r["findings"], fam)
        res.findings.extend(r["sizes"]["findings"], fam)
        res.findings.extend(r["exc"]["findings"], fam)
        res.findings.extend(r["slots"]["findings"], fam)
        res.findings.extend(r["leak"]["findings"], fam)
        for k, v in r["stats"].items():
            if isinstance(v, int):
                tot[k] = tot.get(k, 0) + v
    res.floor("translation units", len(out), 22)
    res.floor("first-leaf grow sites (OO)", out["OO"]["stats"]["grow_first_leaf_sites"], 1)
    res.count("CONV-BEFORE-MUT", tot["conv_status_sites"])
    res.count("GROW-ROLLBACK", tot["grow_first_leaf_sites"])
    res.count("READ-ABSENCE", sum(r["exc"]["n"] for r in out.values()))
    res.floor("functions cast into type-object slots (OO)", out["OO"]["slots"]["n"], 35)
    res.count("SLOT-SIG", sum(r["slots"]["n"] for r in out.values()))
    res.floor("return states examined for a pending exception (OO)", out["OO"]["leak"]["n"], 400)
    res.count("EXC-LEAK", sum(r["leak"]["n"] for r in out.values()))
    res.count("SIZE-WIRING", sum(r["sizes"]["n"] for r in out.values()))
    convert.check_dtype_table(res, {f: r["dtype"] for f, r in out.items()})
    registry.check(res, {f: r["dtype"] for f, r in out.items()},
                   {f: r["modfuncs"] for f, r in out.items()})
    pytaint.check(res)
    convert.check_py_native(res)
    sizes.py_check(res, out["OO"]["sizes"]["facts"])
    res.units = {"translation_units": len(out)}
    res.samples = [
        {"rule": "SIZE-WIRING", "facts": out["OO"]["sizes"]["facts"]},
        {"rule": "FAMILY-REG", "module_functions": {f: r["modfuncs"] for f, r in sorted(out.items())[:4]}},
    ]
    from ..rules import convhelpers
    convhelpers.extend(res, use_cache, ("CONV-HELPER",))
    res.explanation += ' CONV-HELPER: the 64-bit conversion helpers accept exactly the in-range argument classes (decided per class against a model of the CPython APIs), as the Python datatypes do.'
    return res
