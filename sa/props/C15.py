"""C15 - mutating while iterating never crashes or damages the container."""
from .. import engine
from ..rules import cursorguard as cg


def tu_check(tu):
    a = cg.index_guard(tu)
    b = cg.cursor_exc(tu)
    c = cg.next_null(tu)
    d = cg.seek_validates(tu)
    from ..rules import lennonneg
    ln = lennonneg.analyse_tu(tu)
    return dict(findings=a["findings"] + b["findings"] + c["findings"] + d["findings"] + ln["findings"],
                stats={"length_slots": ln["stats"]["length_slots"], "index_uses": a["uses"] + d["n"], "cursor_const_stores": a["stores"],
                       "raise_sites": b["n"], "next_loads": c["loads"]})


def run(tier="quick", seed=0, use_cache=True):
    res = engine.Result("C15")
    res.rules = ["INDEX-GUARD", "CURSOR-SENTINEL", "CURSOR-EXC", "NEXT-NULL", "PY-LIST-IDENTITY", "LEN-NONNEG", "PY-CURSOR-EXC"]
    res.explanation = (
        "Memory safety of the C cursors against concurrent mutation, decided "
        "on all 22 translation units: every subscript of a bucket's keys/"
        "values (incl. getBucketEntry calls) whose index comes from a cursor "
        "field that survives calls into Python (BTreeItems.currentoffset, "
        "SetIteration.position, a sequence index) is dominated by a bounds "
        "test against that bucket's current len whose failing edge cannot "
        "reach the use (or follows a successful BTreeItems_seek, which itself "
        "commits a finger position only after testing 0 <= offset < len "
        "against the current len of that very bucket); constants "
        "stored into such fields are ones the consumers' guards catch; the "
        "exceptions raised on a failed test are RuntimeError/IndexError only; "
        "pointers loaded from a leaf's next link are NULL-tested before "
        "dereference (dataflow). The Python iterators are memory-safe by "
        "construction (list iterators / index generators). What an "
        "interleaving yields and the final contents are not decided."
        ' LEN-NONNEG: length slots return an error constant or a provably non-negative value. PY-LIST-IDENTITY: the Python leaves rebind _keys/_values only in whole-state operations. PY-CURSOR-EXC: every next() of the Python lazy sequences sits under a StopIteration handler.')
    res.assumptions = ["one accepted idiom: BTree_rangeSearch follows first-leaf next under self->len >= 2"]
    out = engine.map_tus("sa.props.C15", "tu_check", use_cache=use_cache)
    tot = {}
    for fam, r in sorted(out.items()):
        res.findings.extend(r["findings"], fam)
        for k, v in r["stats"].items():
            tot[k] = tot.get(k, 0) + v
    oo = out["OO"]["stats"]
    res.floor("cursor-indexed subscripts (OO)", oo["index_uses"], 8)
    res.floor("constant stores to cursor fields (OO)", oo["cursor_const_stores"], 8)
    res.floor("next-link loads (OO)", oo["next_loads"], 6)
    res.floor("translation units", len(out), 22)
    res.count("INDEX-GUARD", tot["index_uses"])
    res.count("CURSOR-SENTINEL", tot["cursor_const_stores"])
    res.count("CURSOR-EXC", tot["raise_sites"])
    res.count("NEXT-NULL", tot["next_loads"])
    res.extra["accepted_idioms"] = [{"function": k[0], "variable": k[1], "reason": v}
                                    for k, v in cg.NEXT_NULL_ACCEPTED.items()]
    res.samples = [
        {"rule": "INDEX-GUARD", "obligation": "getBucketEntry(bucket, i, kind) in BTreeIter_next is dominated by `i >= bucket->len` whose true edge leaves"},
        {"rule": "CURSOR-SENTINEL", "obligation": "items->currentoffset = INT_MAX is caught by `i >= bucket->len`"},
        {"rule": "NEXT-NULL", "obligation": "first = first->next in PreviousBucket is tested by `while (first)` before PER_USE_OR_RETURN(first, -1)"},
    ]
    res.units = {"translation_units": len(out)}
    from ..rules import errexc
    errexc.extend(res, use_cache)
    res.explanation += " ERR-NOEXC: no error return (-1 / NULL) is reachable through a branch that lumps a callee's non-error value with its error value (e.g. `PreviousBucket(...) <= 0`): a cursor that finds its leaf gone raises IndexError / RuntimeError, never SystemError."
    from ..rules import pylistid
    pylistid.check(res)
    from ..rules import pystopiter
    pystopiter.py_check(res)
    res.explanation += (" INDEX-GUARD also requires that no object is released (Py_DECREF family: arbitrary code) "
                        "between the validating test and the use. PY-LIST-IDENTITY: the Python leaves rebind "
                        "self._keys / self._values only in whole-state operations - the lazy iterators capture "
                        "the lists themselves. LEN-NONNEG: every return of a function installed in a length slot "
                        "(and of the repository functions it returns the result of) is an error constant or "
                        "provably non-negative (constants, ->len fields, clamps, counters); accepted idiom: the "
                        "single-leaf range of a lazy sequence.")
    res.floor("length slot functions (OO)", out["OO"]["stats"]["length_slots"], 3)
    res.count("LEN-NONNEG", sum(r["stats"]["length_slots"] for r in out.values()))
    return res
