"""C19 - Length is a conflict-free counter."""
from .. import engine
from ..rules import length


def run(tier="quick", seed=0, use_cache=True):
    res = engine.Result("C19")
    res.level = "proof"
    res.rules = ["LEN-ALGEBRA", "LEN-CELL"]
    res.explanation = (
        "Every return of Length._p_resolveConflict is normalised to a "
        "polynomial over (old, s1, s2) (canonical form over Z, straight-line "
        "locals substituted along every syntactic path) and must be exactly "
        "s1 + s2 - old, also with s1 and s2 exchanged; Python integers are "
        "unbounded, so the identity is exact for all inputs. The cell API "
        "(set/__setstate__/__init__/change/__call__/__getstate__) is matched "
        "structurally: unconditional stores/reads of the single attribute "
        "`value`, no other attribute written.")
    res.assumptions = ["Python int arithmetic is exact", "pickling of the cell is persistent.Persistent's job"]
    findings, obligations = length.check()
    for f in findings:
        res.findings.add(f)
    res.count("LEN-ALGEBRA", sum(1 for o in obligations if "return" in o or "symmetry" in o))
    res.count("LEN-CELL", sum(1 for o in obligations if "cell" in o))
    res.floor("return statements of _p_resolveConflict", sum(1 for o in obligations if "return" in o), 1)
    res.samples = obligations
    res.units = {"files": ["src/BTrees/Length.py"], "methods": 7}
    res.exhaustive = True
    return res
