"""C19 - Length is a conflict-free counter."""
from .. import engine
from ..rules import length


def run(tier="quick", seed=0, use_cache=True):
    res = engine.Result("C19")
    res.level = "proof"
    res.rules = ["LEN-ALGEBRA", "LEN-CELL"]
    res.explanation = (
        "An all-paths symbolic interpreter over Length's methods (values are "
        "polynomials over the parameters and the entry contents of the cell, "
        "canonical form over Z; both branches of every conditional are "
        "followed; calls of module-level helpers and of the class's own "
        "methods are inlined, a parameter bound to self aliases the object). "
        "Every path of _p_resolveConflict must return exactly the polynomial "
        "s1 + s2 - old - which is symmetric in s1 and s2 - without touching "
        "the object; Python integers are unbounded, so the identity is exact "
        "for all inputs. On every path set/__setstate__/__init__ leave "
        "value = argument, change leaves value = value + argument, "
        "__call__/__getstate__ return value unchanged, and no other "
        "attribute is written.")
    res.assumptions = ["Python int arithmetic is exact", "pickling of the cell is persistent.Persistent's job"]
    findings, obligations = length.check()
    for f in findings:
        res.findings.add(f)
    res.count("LEN-ALGEBRA", sum(1 for o in obligations if "returns" in o))
    res.count("LEN-CELL", sum(1 for o in obligations if "cell" in o))
    res.floor("paths of _p_resolveConflict", sum(1 for o in obligations if "returns" in o), 1)
    res.floor("cell methods interpreted", sum(1 for o in obligations if "cell" in o), 6)
    res.samples = obligations
    res.units = {"files": ["src/BTrees/Length.py"], "methods": 7}
    res.exhaustive = True
    return res
