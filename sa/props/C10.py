"""C10 - union / intersection / difference compute the mathematical result."""
from .. import engine
from ..rules import setops, setwiring, errswallow
from . import _setop_common as common

ENTRIES = ("difference", "union", "intersection")


def tu_check(tu):
    r = setwiring.c_rules(tu)
    r["tables"] = common.tables_for_tu(tu, ENTRIES)
    es = errswallow.analyse_tu(tu)
    from ..rules import iterexhaust
    ie = iterexhaust.analyse_tu(tu)
    from ..rules import realtype
    rt = realtype.analyse_tu(tu)
    r["stats"]["real_type_tests"] = rt["stats"]["real_type_tests"]
    r["findings"] = r["findings"] + es["findings"] + ie["findings"] + rt["findings"]
    r["stats"]["pyiter_sites"] = ie["stats"]["pyiter_sites"]
    r["stats"]["guarded_clears"] = es["stats"]["guarded_clears"]
    r["stats"]["clears"] = sum(es["stats"].values())
    return r


def run(tier="quick", seed=0, use_cache=True):
    res = engine.Result("C10")
    res.rules = ["SETOP-TABLE", "OP-WIRING", "ALIAS-GUARD", "FRESH-ONLY", "OPERAND-ADAPT", "INPLACE-MONOTONE", "INPLACE-OPERAND", "INPLACE-REPLACE", "ERR-SWALLOW", "ITER-EXHAUST", "REAL-TYPE"]
    res.exhaustive = True
    res.explanation = (
        "Decision-table extraction for difference / union / intersection: for "
        "every combination of None-ness and kind (mapping / set) of the two "
        "operands, liveness of the two cursors and sign of the key "
        "comparison, the first action of the C entry point (through "
        "set_operation and copyRemaining, all 22 translation units) and of the "
        "Python function is computed from the code by constant propagation "
        "(which operand's key is emitted, with which value, which cursors "
        "advance, kind of the fresh result, short-circuit returns) and "
        "compared with the table written from Interfaces.py. Structural "
        "rules: operator slots / dunder methods reach the documented function "
        "with operands in order; in-place -= and ^= test `other is self` "
        "before iterating the operand; set-operation code applies mutating "
        "APIs only to objects it created; arbitrary iterables are sorted and "
        "made duplicate-free; no loop of an in-place operator both adds to "
        "and removes from the container (INPLACE-MONOTONE: per-occurrence "
        "toggling, C x22 and Python); the Python in-place operators consume "
        "their operand exactly once and never through a membership test "
        "(INPLACE-OPERAND: one-shot iterators, str); the rebuild step of C &= "
        "dominates every success result (INPLACE-REPLACE); every PyErr_Clear() of the translation unit is dominated by a test of the exception's class whose failing edge cannot reach it, or is followed by the raising of another exception on every path, or belongs to an accepted protocol idiom (ERR-SWALLOW) - a cursor that clears unguarded ends the iteration silently and the operation returns a truncated result; after PyIter_Next produced an element of an operand a success return (other than a constant answer) is reachable only through another PyIter_Next that returned NULL (ITER-EXHAUST, on top of the exception-state dataflow) - an in-place operator that stops early applies itself to a prefix of its operand. Assumes container cursors yield strictly "
        "increasing keys (C01); result equality on concrete operands is not "
        "decided."
        " ITER-EXHAUST: a success return after PyIter_Next produced an element is reachable only through the iterator's exhaustion. REAL-TYPE: no PyObject_IsInstance against the unit's own type objects in front of a struct cast (the pure-Python classes' __class__ names the C class).")
    res.assumptions = ["container cursors yield strictly increasing keys (C01)",
                       "initSetIteration/_SetIteration classify operands as documented (kinds are atoms of the table)"]
    out = engine.map_tus("sa.props.C10", "tu_check", use_cache=use_cache)
    for fam, r in sorted(out.items()):
        res.findings.extend(r["findings"], fam)
    n = common.compare(res, out, ENTRIES, "SETOP-TABLE")
    res.count("SETOP-TABLE", n)
    oo = out["OO"]["stats"]
    res.floor("operator slots checked (OO)", oo["slots"], 16)
    res.floor("in-place alias guards (OO)", oo["inplace"], 3)
    res.floor("mutations of self inside loops of the in-place operators (OO)", oo.get("inplace_loop_mutations", 0), 4)
    res.count("INPLACE-MONOTONE", sum(r["stats"].get("inplace_loop_mutations", 0) for r in out.values()))
    res.floor("success results of the &= slot functions (OO)", oo.get("inplace_and_results", 0), 2)
    res.count("INPLACE-REPLACE", sum(r["stats"].get("inplace_and_results", 0) for r in out.values()))
    res.floor("class-guarded PyErr_Clear sites (OO)", oo["guarded_clears"], 10)
    res.floor("PyIter_Next sites (OO)", oo["pyiter_sites"], 8)
    res.floor("real-type tests against the unit's type objects (OO)", oo["real_type_tests"], 4)
    res.count("REAL-TYPE", sum(r["stats"]["real_type_tests"] for r in out.values()))
    res.count("ITER-EXHAUST", sum(r["stats"]["pyiter_sites"] for r in out.values()))
    res.count("ERR-SWALLOW", sum(r["stats"]["clears"] for r in out.values()))
    res.floor("translation units", len(out), 22)
    res.count("OP-WIRING", sum(r["stats"]["slots"] for r in out.values()))
    res.count("ALIAS-GUARD", sum(r["stats"]["inplace"] for r in out.values()))
    res.count("FRESH-ONLY", sum(r["stats"]["mutator_calls"] for r in out.values()))
    res.count("OPERAND-ADAPT", sum(r["stats"]["adapters"] for r in out.values()))
    setwiring.py_rules(res)
    t = setops.py_table("difference")
    res.samples = [{"situation": k, "action": list(v)} for k, v in list(t.items())[3:9]]
    res.units = {"translation_units": len(out), "python_functions": 3}
    from ..rules import cmpmacro
    cmpmacro.extend(res, use_cache, ("TEST_KEY_SET_OR",))
    res.explanation += " CMP-MACRO: the key comparison the table's sign atom stands for is a genuine three-way comparison in every family."
    return res
