"""C17 - out of memory is reported, not corrupting: allocation discipline."""
from .. import engine
from ..rules import alloc, clearfill, splitcommit


def tu_check(tu):
    r = alloc.analyse_tu(tu)
    cf = clearfill.analyse_tu(tu, mode="alloc")
    r["findings"] = r["findings"] + cf["findings"]
    r["stats"]["clear_sites"] = cf["stats"]["clear_sites"]
    sc = splitcommit.analyse_tu(tu)
    r["findings"] = r["findings"] + sc["findings"]
    r["stats"]["split_sites"] = sc["stats"]["split_call_sites"] + sc["stats"]["split_commit_stores"]
    return r


def run(tier="quick", seed=0, use_cache=True):
    res = engine.Result("C17")
    res.rules = ["ALLOC-CHECKED", "REALLOC-DISC", "FREE-DISC", "SIZE-BEFORE-ALLOC", "RAW-ALLOC", "EXC-PENDING", "CLEAR-THEN-FILL", "SPLIT-COMMIT"]
    res.explanation = (
        "Path-sensitive dataflow over the clang CFG of every function of the "
        "22 translation units that allocates or frees: the result of every "
        "call that can fail by allocation (BTree_Malloc/BTree_Realloc/malloc/"
        "node constructors and the CPython value constructors) is NULL-tested "
        "before it is dereferenced, subscripted or handed to a NULL-intolerant "
        "or reference-stealing sink; after q = BTree_Realloc(p, ...) succeeds, "
        "p = q is executed before any return and q is never freed; a freed "
        "member pointer is reset before return; a node's size field is not "
        "raised before the allocation backing it has succeeded; raw malloc/"
        "realloc/free are confined to the wrappers and the confirmed owners; "
        "the wrappers raise MemoryError; no path recovers from a failed "
        "wrapper call and returns success with the MemoryError still pending "
        "(EXC-PENDING); no operation empties its own container and then "
        "rebuilds it through calls that allocate (CLEAR-THEN-FILL; state "
        "loaders excluded); after a node split succeeded nothing can fail "
        "before the new sibling is stored as a child (SPLIT-COMMIT). Every failure exit is covered, "
        "whether or not a test can reach it.")
    res.assumptions = [
        "module initialisation and repr are outside 'inside an operation' and not analysed",
        "decides the discipline at each allocation site; soundness of the container after the n-th failure of a history is not decided",
    ]
    out = engine.map_tus("sa.props.C17", "tu_check", use_cache=use_cache)
    tot = {}
    for fam, r in sorted(out.items()):
        res.findings.extend(r["findings"], fam)
        for k, v in r["stats"].items():
            tot[k] = tot.get(k, 0) + v
    oo = out["OO"]["stats"]
    res.units = {"translation_units": len(out), "functions_with_allocation": tot["functions"]}
    res.floor("allocation result sites (OO)", oo["alloc_sites"], 50)
    res.floor("BTree_Realloc sites (OO)", oo["realloc_sites"], 4)
    res.floor("free(member) sites (OO)", oo["free_member_sites"], 5)
    res.floor("raw allocator calls (OO)", oo["raw_sites"], 2)
    res.floor("translation units", len(out), 22)
    res.count("ALLOC-CHECKED", tot["alloc_sites"])
    res.count("REALLOC-DISC", tot["realloc_sites"])
    res.count("FREE-DISC", tot["free_member_sites"])
    res.count("SIZE-BEFORE-ALLOC", tot["size_store_sites"])
    res.count("RAW-ALLOC", tot["raw_sites"])
    res.floor("calls that empty the function's own container", tot["clear_sites"], 5 * 22)
    res.count("CLEAR-THEN-FILL", tot["clear_sites"])
    res.floor("split call sites and commit stores", tot["split_sites"], 5 * 22)
    res.count("SPLIT-COMMIT", tot["split_sites"])
    res.samples = [
        {"rule": "REALLOC-DISC", "obligation": "keys = BTree_Realloc(self->keys, ...) in Bucket_grow: self->keys = keys before every return"},
        {"rule": "ALLOC-CHECKED", "obligation": "next->data = BTree_Malloc(...) in BTree_split is tested before memcpy(next->data, ...)"},
        {"rule": "FREE-DISC", "obligation": "free(next->keys) in bucket_split is followed by next->keys = NULL"},
        {"rule": "SIZE-BEFORE-ALLOC", "obligation": "self->size *= 2 in BTree_grow happens after the realloc of self->data succeeded"},
    ]
    return res
