"""Statement-level control-flow graph for the C IR, with short-circuit
conditions split into branch nodes and the persistence idioms recognised
*semantically* (by the shape of the expanded code, not by macro name).

Node kinds
  entry / exit
  stmt    e = expression / DeclStmt evaluated for effect        succ: next
  branch  e = atomic condition                                   succ: T, F
  return  e = returned expression or None                        succ: exit
  join    no effect (labels, loop heads)

unit (on stmt/branch nodes) is one of
  ("ACQ", X)   activate-and-pin attempt; branch: T = success, F = failure
  ("PIN", X)   pin if up to date           (PER_PREVENT_DEACTIVATION)
  ("REL", X)   unpin if sticky             (PER_ALLOW_DEACTIVATION)
where X is the IR expression denoting the persistent object.
"""
from .cir import strip, strip_parens, const_int, callee, text, path
from .common import AnalysisError


class Node(object):
    __slots__ = ("id", "kind", "e", "succ", "unit", "src", "preds", "note")

    def __init__(self, id, kind, e=None, src=None):
        self.id = id
        self.kind = kind
        self.e = e
        self.succ = []      # list of (label, Node)
        self.unit = None
        self.src = src      # statement the node came from (for reports)
        self.preds = []
        self.note = None

    @property
    def where(self):
        n = self.e if self.e is not None and self.e.l is not None else self.src
        if n is None or n.l is None:
            return "?"
        return "%s:%s" % (n.f, n.l)

    @property
    def line(self):
        n = self.e if self.e is not None and self.e.l is not None else self.src
        return n.l if n is not None else None

    def __repr__(self):
        return "<%d %s %s %s>" % (self.id, self.kind,
                                  text(self.e)[:60] if self.e is not None else "",
                                  self.unit[0] if self.unit else "")


# --------------------------------------------------------------------------
# persistence idiom recognisers

def _state_member(e):
    """X if e is `X->state`, else None."""
    e = strip(e)
    if e is not None and e.k == "MemberExpr" and e.n == "state" and e.v == "->":
        return e.kids[0]
    return None


def state_cmp(e):
    """(X, op, const) for `X->state <op> const`."""
    e = strip(e)
    if e is None or e.k != "BinaryOperator" or e.v not in ("==", "!="):
        return None
    x = _state_member(e.kids[0])
    c = const_int(e.kids[1])
    if x is None or c is None:
        return None
    return (x, e.v, c)


def state_assign(e):
    """(X, const) for `X->state = const`."""
    e = strip(e)
    if e is None or e.k != "BinaryOperator" or e.v != "=":
        return None
    x = _state_member(e.kids[0])
    c = const_int(e.kids[1])
    if x is None or c is None:
        return None
    return (x, c)


def capi_call(e, name):
    """argument expression if e is `cPersistenceCAPI-><name>(arg)`."""
    e = strip(e)
    if e is None or e.k != "CallExpr":
        return None
    c = callee(e)
    if c == ("capi", name) and len(e.kids) >= 2:
        return e.kids[1]
    return None


def _samepath(a, b):
    pa, pb = path(a), path(b)
    return pa is not None and pa == pb


def match_pin_if_uptodate(e):
    """`X->state == 0 ? X->state = 2 : <const>`  or  `X->state==0 && (X->state=2)`."""
    e = strip(e)
    if e is None:
        return None
    if e.k == "ConditionalOperator":
        c = state_cmp(e.kids[0])
        a = state_assign(e.kids[1])
        if c and a and c[1] == "==" and c[2] == 0 and a[1] == 2 and \
                _samepath(c[0], a[0]) and const_int(e.kids[2]) is not None:
            return c[0]
    if e.k == "BinaryOperator" and e.v == "&&":
        c = state_cmp(e.kids[0])
        a = state_assign(e.kids[1])
        if c and a and c[1] == "==" and c[2] == 0 and a[1] == 2 and \
                _samepath(c[0], a[0]):
            return c[0]
    return None


def match_rel(e):
    """`X->state == 2 && (X->state = 0)`  (PER_ALLOW_DEACTIVATION)."""
    e = strip(e)
    if e is None or e.k != "BinaryOperator" or e.v != "&&":
        return None
    c = state_cmp(e.kids[0])
    a = state_assign(e.kids[1])
    if c and a and c[1] == "==" and c[2] == 2 and a[1] == 0 and _samepath(c[0], a[0]):
        return c[0]
    return None


def match_acq_expr(e):
    """PER_USE(X): ((X->state != -1 || setstate(X) >= 0) ? pin-if-uptodate : 0)."""
    e = strip(e)
    if e is None or e.k != "ConditionalOperator":
        return None
    c = strip(e.kids[0])
    if c is None or c.k != "BinaryOperator" or c.v != "||":
        return None
    sc = state_cmp(c.kids[0])
    if not sc or sc[1] != "!=" or sc[2] != -1:
        return None
    r = strip(c.kids[1])
    if r is None or r.k != "BinaryOperator" or r.v != ">=" or const_int(r.kids[1]) != 0:
        return None
    arg = capi_call(r.kids[0], "setstate")
    if arg is None or not _samepath(arg, sc[0]):
        return None
    x = match_pin_if_uptodate(e.kids[1])
    if x is None or not _samepath(x, sc[0]):
        return None
    pin = strip(e.kids[1])
    if const_int(pin.kids[2]) in (None, 0):
        return None
    if const_int(e.kids[2]) != 0:
        return None
    return sc[0]


def match_acq_stmt(s):
    """PER_USE_OR_RETURN(X, R):
    if (X->state == -1 && setstate(X) < 0) return R; else if (X->state == 0) X->state = 2;
    Returns (X, return-statement)."""
    if s.k != "IfStmt" or len(s.kids) < 3:
        return None
    c = strip(s.kids[0])
    if c is None or c.k != "BinaryOperator" or c.v != "&&":
        return None
    sc = state_cmp(c.kids[0])
    if not sc or sc[1] != "==" or sc[2] != -1:
        return None
    r = strip(c.kids[1])
    if r is None or r.k != "BinaryOperator" or r.v != "<" or const_int(r.kids[1]) != 0:
        return None
    arg = capi_call(r.kids[0], "setstate")
    if arg is None or not _samepath(arg, sc[0]):
        return None
    then = s.kids[1]
    while then.k == "CompoundStmt" and len(then.kids) == 1:
        then = then.kids[0]
    if then.k != "ReturnStmt":
        return None
    els = s.kids[2]
    while els.k == "CompoundStmt" and len(els.kids) == 1:
        els = els.kids[0]
    if els.k != "IfStmt" or len(els.kids) != 2:
        return None
    c2 = state_cmp(els.kids[0])
    body = els.kids[1]
    while body.k == "CompoundStmt" and len(body.kids) == 1:
        body = body.kids[0]
    a2 = state_assign(body)
    if not (c2 and a2 and c2[1] == "==" and c2[2] == 0 and a2[1] == 2
            and _samepath(c2[0], sc[0]) and _samepath(a2[0], sc[0])):
        return None
    return (sc[0], then)


# --------------------------------------------------------------------------

def _mk(src, k, **kw):
    from .cfront import N
    n = N()
    n.k = k
    for a in ("f", "l", "c", "le", "sf", "sl"):
        setattr(n, a, getattr(src, a))
    n.mo = "Py_CLEAR"
    n.kids = ()
    for key, val in kw.items():
        setattr(n, key, val)
    return n


_CLEAR_SEQ = [0]


def _lower_py_clear(s):
    """[tmp = op;  op = NULL;  Py_XDECREF(tmp);] as IR statements, or None when
    the expansion is not the one of CPython's Py_CLEAR"""
    op = None
    for d in s.walk():
        if d.k == "VarDecl" and d.kids:
            init = d.kids[-1]
            x = init
            while x is not None and x.k in ("ParenExpr", "ImplicitCastExpr", "CStyleCastExpr") and x.kids:
                x = x.kids[-1]
            if x is not None and x.k == "UnaryOperator" and x.v == "&" and x.kids:
                op = x.kids[0]
                while op.k == "ParenExpr" and op.kids:
                    op = op.kids[0]
                break
    if op is None:
        return None
    _CLEAR_SEQ[0] += 1
    tmp = "__cleared%d" % _CLEAR_SEQ[0]
    ty = op.t or "PyObject *"
    decl = _mk(s, "DeclStmt", kids=(_mk(s, "VarDecl", n=tmp, t=ty, kids=(op,)),))
    null = _mk(s, "ImplicitCastExpr", v="NullToPointer", t=ty,
               kids=(_mk(s, "IntegerLiteral", v="0", t="int"),))
    store = _mk(s, "BinaryOperator", v="=", t=ty, kids=(op, null))
    fn = _mk(s, "ImplicitCastExpr", v="FunctionToPointerDecay",
             kids=(_mk(s, "DeclRefExpr", n="Py_XDECREF", rk="FunctionDecl", t="void (PyObject *)"),))
    arg = _mk(s, "DeclRefExpr", n=tmp, rk="VarDecl", t=ty)
    call = _mk(s, "CallExpr", t="void", kids=(fn, arg))
    call.mo = "Py_XDECREF"
    return [decl, store, call]


class CFG(object):
    def __init__(self, fn):
        self.fn = fn                # N FunctionDecl
        self.name = fn.n
        self.nodes = []
        self.entry = self._new("entry")
        self.exit = self._new("exit")
        self.labels = {}
        self._build()

    def _new(self, kind, e=None, src=None):
        n = Node(len(self.nodes), kind, e, src)
        self.nodes.append(n)
        return n

    # ---- construction -----------------------------------------------------
    def _build(self):
        body = None
        for k in self.fn.kids:
            if k.k == "CompoundStmt":
                body = k
        if body is None:
            raise AnalysisError("no body: %s" % self.name)
        for n in body.walk():
            if n.k == "LabelStmt":
                self.labels[n.n] = self._new("join", src=n)
        # falling off the end of the body (void functions) is a return too
        fall = self._new("return", None, src=body.kids[-1] if body.kids else body)
        fall.note = "implicit"
        fall.succ.append(("next", self.exit))
        start = self._stmt(body, fall, None, None)
        self.entry.succ.append(("next", start))
        self._prune()

    def _prune(self):
        # reachability + predecessor lists
        seen = set()
        stack = [self.entry]
        while stack:
            n = stack.pop()
            if n.id in seen:
                continue
            seen.add(n.id)
            for _, s in n.succ:
                stack.append(s)
        self.reachable = seen
        for n in self.nodes:
            n.preds = []
        for n in self.nodes:
            if n.id in seen:
                for lab, s in n.succ:
                    s.preds.append((lab, n))

    def live_nodes(self):
        return [n for n in self.nodes if n.id in self.reachable]

    def _seq(self, stmts, nxt, brk, cont):
        for s in reversed(stmts):
            nxt = self._stmt(s, nxt, brk, cont)
        return nxt

    def _stmt(self, s, nxt, brk, cont):
        k = s.k
        if k == "CompoundStmt":
            return self._seq(list(s.kids), nxt, brk, cont)
        if k in ("NullStmt", "Absent"):
            return nxt
        if k == "DeclStmt":
            has_init = any(v.k == "VarDecl" and any(c.k not in ("Absent",) and not c.k.endswith("Attr") for c in v.kids) for v in s.kids)
            n = self._new("stmt", s, s)
            n.succ.append(("next", nxt))
            return n
        if k == "ReturnStmt":
            e = s.kids[0] if s.kids else None
            return self._return(e, s)
        if k == "GotoStmt":
            tgt = self.labels.get(s.n)
            if tgt is None:
                raise AnalysisError("goto to unknown label %s in %s" % (s.n, self.name))
            return tgt
        if k == "LabelStmt":
            j = self.labels[s.n]
            inner = self._stmt(s.kids[-1], nxt, brk, cont) if s.kids else nxt
            j.succ.append(("next", inner))
            return j
        if k == "BreakStmt":
            if brk is None:
                raise AnalysisError("break outside loop in %s" % self.name)
            return brk
        if k == "ContinueStmt":
            if cont is None:
                raise AnalysisError("continue outside loop in %s" % self.name)
            return cont
        if k == "IfStmt":
            m = match_acq_stmt(s)
            if m is not None:
                x, ret = m
                b = self._new("branch", s.kids[0], s)
                b.unit = ("ACQ", x)
                b.succ.append(("T", nxt))
                b.succ.append(("F", self._stmt(ret, nxt, brk, cont)))
                return b
            # kids: cond, then[, else]   (C: no init/var)
            cond, then = s.kids[0], s.kids[1]
            els = s.kids[2] if len(s.kids) > 2 else None
            t = self._stmt(then, nxt, brk, cont)
            f = self._stmt(els, nxt, brk, cont) if els is not None else nxt
            return self._cond(cond, t, f, s)
        if k == "WhileStmt":
            head = self._new("join", src=s)
            body = self._stmt(s.kids[-1], head, nxt, head)
            head.succ.append(("next", self._cond(s.kids[0], body, nxt, s)))
            return head
        if k == "DoStmt" and s.mo == "Py_CLEAR":
            # Py_CLEAR(op) expands to pointer juggling through temporaries; what it
            # means is:  tmp = op;  op = NULL;  Py_XDECREF(tmp);   (detach, then release)
            lowered = _lower_py_clear(s)
            if lowered is not None:
                return self._seq(lowered, nxt, brk, cont)
        if k == "DoStmt":
            # kids: body, cond
            condj = self._new("join", src=s)
            head = self._new("join", src=s)
            body = self._stmt(s.kids[0], condj, nxt, condj)
            head.succ.append(("next", body))
            condj.succ.append(("next", self._cond(s.kids[1], head, nxt, s)))
            return head
        if k == "ForStmt":
            # kids: init, condvar(Absent), cond, inc, body
            init, _cv, cond, inc, body = (list(s.kids) + [None] * 5)[:5]
            head = self._new("join", src=s)
            incj = self._new("join", src=s)
            bodyn = self._stmt(body, incj, nxt, incj) if body is not None else incj
            if inc is not None and inc.k != "Absent":
                incj.succ.append(("next", self._expr_stmt(inc, head, s)))
            else:
                incj.succ.append(("next", head))
            if cond is not None and cond.k != "Absent":
                head.succ.append(("next", self._cond(cond, bodyn, nxt, s)))
            else:
                head.succ.append(("next", bodyn))
            if init is not None and init.k != "Absent":
                return self._stmt(init, head, None, None)
            return head
        if k == "SwitchStmt":
            cond, body = s.kids[0], s.kids[-1]
            sw = self._new("branch", cond, s)
            sw.note = "switch"
            # flatten body: sequence of statements with Case/Default markers
            items = list(body.kids) if body.k == "CompoundStmt" else [body]
            # build from the end so that fallthrough works
            cur = nxt
            targets = []
            has_default = False
            for it in reversed(items):
                labels = []
                st = it
                while st.k in ("CaseStmt", "DefaultStmt"):
                    if st.k == "CaseStmt":
                        labels.append("case:%s" % text(st.kids[0]))
                    else:
                        labels.append("default")
                        has_default = True
                    st = st.kids[-1]
                cur = self._stmt(st, cur, nxt, cont)
                for lab in labels:
                    targets.append((lab, cur))
            for lab, t in reversed(targets):
                sw.succ.append((lab, t))
            if not has_default:
                sw.succ.append(("default", nxt))
            return sw
        if k in ("CaseStmt", "DefaultStmt"):
            raise AnalysisError("case label outside switch body in %s" % self.name)
        if k.endswith("Stmt") and k not in ("DeclStmt",):
            raise AnalysisError("unknown statement kind %s in %s (%s:%s)"
                                % (k, self.name, s.f, s.l))
        # expression statement
        return self._expr_stmt(s, nxt, s)

    def _expr_stmt(self, e, nxt, src):
        se = strip_parens(e)
        x = match_rel(se)
        if x is not None:
            n = self._new("stmt", e, src)
            n.unit = ("REL", x)
            n.succ.append(("next", nxt))
            return n
        x = match_pin_if_uptodate(se)
        if x is not None:
            n = self._new("stmt", e, src)
            n.unit = ("PIN", x)
            n.succ.append(("next", nxt))
            return n
        if se is not None and se.k == "BinaryOperator" and se.v == ",":
            return self._expr_stmt(se.kids[0], self._expr_stmt(se.kids[1], nxt, src), src)
        n = self._new("stmt", e, src)
        n.succ.append(("next", nxt))
        return n

    def _return(self, e, src):
        """`return <logical expression>` is lowered to branches that end in
        `return 1` / `return 0`, and `return c ? a : b` to two returns, so that
        path rules see one constant (or one simple expression) per return."""
        def ret(expr):
            n = self._new("return", expr, src)
            n.succ.append(("next", self.exit))
            return n

        def lit(v, like):
            from .cfront import N
            x = N()
            x.k, x.v, x.t = "IntegerLiteral", str(v), "int"
            x.f, x.l, x.c, x.le = like.f, like.l, like.c, like.le
            x.mo, x.mi = like.mo, like.mi
            x.kids = ()
            return x
        if e is None:
            return ret(None)
        e0 = strip_parens(e)
        while e0.k == "ImplicitCastExpr" and e0.kids and e0.v in ("IntegralCast", "NoOp", "LValueToRValue"):
            inner = strip_parens(e0.kids[0])
            if inner.k in ("BinaryOperator", "UnaryOperator", "ConditionalOperator", "ParenExpr", "ImplicitCastExpr"):
                e0 = inner
            else:
                break
        logical = (e0.k == "BinaryOperator" and e0.v in ("&&", "||")) or \
                  (e0.k == "UnaryOperator" and e0.v == "!")
        cmp_call = e0.k == "BinaryOperator" and e0.v in ("==", "!=", "<", ">", "<=", ">=") and \
            any(x.k == "CallExpr" for x in e0.walk())
        if logical or cmp_call:
            return self._cond(e0, ret(lit(1, e0)), ret(lit(0, e0)), src)
        if e0.k == "ConditionalOperator" and not (
                "_Py_NoneStruct" in text(e0) and False):
            return self._cond(e0.kids[0], self._return(e0.kids[1], src), self._return(e0.kids[2], src), src)
        return ret(e)

    def _cond(self, e, t, f, src):
        e0 = e
        e = strip_parens(e)
        # integer-preserving implicit casts are transparent for truthiness
        while e.k == "ImplicitCastExpr" and e.v in ("LValueToRValue", "IntegralCast",
                                                   "NoOp", "IntegralToBoolean",
                                                   "PointerToBoolean") and \
                e.kids and e.kids[0].k in ("ParenExpr", "BinaryOperator",
                                           "UnaryOperator", "ConditionalOperator",
                                           "ImplicitCastExpr", "IntegerLiteral"):
            e = strip_parens(e.kids[0])
        c = const_int(e)
        if c is not None:
            return t if c else f
        if e.k == "UnaryOperator" and e.v == "!":
            return self._cond(e.kids[0], f, t, src)
        if e.k == "BinaryOperator" and e.v == "&&":
            return self._cond(e.kids[0], self._cond(e.kids[1], t, f, src), f, src)
        if e.k == "BinaryOperator" and e.v == "||":
            return self._cond(e.kids[0], t, self._cond(e.kids[1], t, f, src), src)
        if e.k == "BinaryOperator" and e.v == ",":
            return self._expr_stmt(e.kids[0], self._cond(e.kids[1], t, f, src), src)
        x = match_acq_expr(e)
        if x is not None:
            b = self._new("branch", e, src)
            b.unit = ("ACQ", x)
            b.succ.append(("T", t))
            b.succ.append(("F", f))
            return b
        if e.k == "ConditionalOperator":
            return self._cond(e.kids[0], self._cond(e.kids[1], t, f, src),
                              self._cond(e.kids[2], t, f, src), src)
        # comparisons against constant of a nested short-circuit are left atomic
        b = self._new("branch", e, src)
        b.succ.append(("T", t))
        b.succ.append(("F", f))
        return b

    # ---- queries ------------------------------------------------------------
    def returns(self):
        return [n for n in self.live_nodes() if n.kind == "return"]

    def dominators(self):
        """{node id: set of dominator ids} (simple iterative algorithm)."""
        live = self.live_nodes()
        ids = [n.id for n in live]
        allset = set(ids)
        dom = {i: set(allset) for i in ids}
        dom[self.entry.id] = {self.entry.id}
        changed = True
        order = self.rpo()
        while changed:
            changed = False
            for n in order:
                if n is self.entry:
                    continue
                ps = [p for _, p in n.preds if p.id in allset]
                if ps:
                    new = set.intersection(*[dom[p.id] for p in ps])
                else:
                    new = set()
                new = new | {n.id}
                if new != dom[n.id]:
                    dom[n.id] = new
                    changed = True
        return dom

    def rpo(self):
        seen = set()
        out = []

        def dfs(n):
            stack = [(n, iter(n.succ))]
            seen.add(n.id)
            while stack:
                node, it = stack[-1]
                for _, s in it:
                    if s.id not in seen:
                        seen.add(s.id)
                        stack.append((s, iter(s.succ)))
                        break
                else:
                    out.append(node)
                    stack.pop()
        dfs(self.entry)
        out.reverse()
        return out

    def dump(self):
        lines = []
        for n in self.live_nodes():
            lines.append("%3d %-6s %-5s %-70s -> %s" % (
                n.id, n.kind, n.unit[0] if n.unit else "",
                (text(n.e)[:70] if n.e is not None else ""),
                ", ".join("%s:%d" % (l, s.id) for l, s in n.succ)))
        return "\n".join(lines)
