"""Python front end: ast of the pure-Python implementation, class table with
C3 MRO, method resolution, and small syntactic helpers.  Nothing is imported
from the repository."""
import ast

from .common import AnalysisError, read_repo_text, SRC

_cache = {}


def module(rel):
    """ast.Module of a repository file (rel to the repo root)."""
    if rel not in _cache:
        try:
            src = read_repo_text(rel)
        except OSError as e:
            raise AnalysisError("anchor vanished: %s (%s)" % (rel, e))
        try:
            tree = ast.parse(src, filename=rel)
        except SyntaxError as e:
            raise AnalysisError("cannot parse %s: %s" % (rel, e))
        for node in ast.walk(tree):
            for child in ast.iter_child_nodes(node):
                child._parent = node
        _cache[rel] = (tree, src)
    return _cache[rel][0]


def source(rel):
    module(rel)
    return _cache[rel][1]


def base_py():
    return module(SRC + "/_base.py")


def classes(tree):
    return {n.name: n for n in tree.body if isinstance(n, ast.ClassDef)}


def functions(tree):
    return {n.name: n for n in tree.body if isinstance(n, ast.FunctionDef)}


def _base_names(cls):
    out = []
    for b in cls.bases:
        if isinstance(b, ast.Name):
            out.append(b.id)
        elif isinstance(b, ast.Attribute):
            out.append(b.attr)
    return out


def mro(tree, name):
    """C3 linearisation over the classes defined in the module (external
    bases such as Persistent are kept as leaf names)."""
    cls = classes(tree)

    def lin(n):
        if n not in cls:
            return [n]
        seqs = [lin(b) for b in _base_names(cls[n])] + [list(_base_names(cls[n]))]
        res = [n]
        seqs = [s for s in seqs if s]
        while seqs:
            for s in seqs:
                h = s[0]
                if not any(h in t[1:] for t in seqs):
                    break
            else:
                raise AnalysisError("inconsistent MRO for %s" % n)
            res.append(h)
            seqs = [[x for x in s if x != h] for s in seqs]
            seqs = [s for s in seqs if s]
        return res
    return lin(name)


def class_members(cls):
    """{name: FunctionDef | ('alias', other name) | ('expr', node)}"""
    out = {}
    for st in cls.body:
        if isinstance(st, ast.FunctionDef):
            out[st.name] = st
        elif isinstance(st, ast.Assign) and len(st.targets) == 1 and \
                isinstance(st.targets[0], ast.Name):
            v = st.value
            if isinstance(v, ast.Name):
                out[st.targets[0].id] = ("alias", v.id, None)
            elif isinstance(v, ast.Attribute) and isinstance(v.value, ast.Name):
                out[st.targets[0].id] = ("alias", v.attr, v.value.id)
            else:
                out[st.targets[0].id] = ("expr", v, None)
        elif isinstance(st, (ast.Try, ast.If)):
            # methods defined under try/else or if (e.g. __reduce__ in _Base)
            for sub in ast.walk(st):
                if isinstance(sub, ast.FunctionDef) and sub.name not in out:
                    out[sub.name] = sub
    return out


def resolve(tree, kind, name, _depth=0):
    """(defining class, FunctionDef) of method `name` for concrete class
    `kind`, following the MRO and class-level aliases; None if not found."""
    cls = classes(tree)
    for c in mro(tree, kind):
        if c not in cls:
            continue
        mem = class_members(cls[c])
        if name in mem:
            m = mem[name]
            if isinstance(m, ast.FunctionDef):
                return c, m
            if m[0] == "alias" and _depth < 5:
                if m[2] is not None:
                    return resolve(tree, m[2], m[1], _depth + 1)
                # alias to a name in the same class body
                m2 = mem.get(m[1])
                if isinstance(m2, ast.FunctionDef):
                    return c, m2
                return resolve(tree, kind, m[1], _depth + 1)
            return c, None
    return None


KINDS = ("Bucket", "Set", "Tree", "TreeSet")


def unparse(node):
    try:
        return ast.unparse(node)
    except Exception:
        return "<%s>" % type(node).__name__


def is_self_attr(node, attr=None, selfname="self"):
    return (isinstance(node, ast.Attribute) and isinstance(node.value, ast.Name)
            and node.value.id == selfname and (attr is None or node.attr == attr))


def where(rel, node):
    return "%s:%s" % (rel, getattr(node, "lineno", "?"))
