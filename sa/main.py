"""CLI: ./check <ID> --tier quick|thorough   |   ./check <ID> --replay <path>
        ./check --selfcheck

exit 0 = the property's decided clause held on everything analysed
exit 1 = VIOLATION (not listed in known_findings.json)
exit 2 = ANALYSIS-ERROR (fail closed: vanished anchor, unknown idiom, crash)
"""
import argparse
import importlib
import json
import os
import sys
import time
import traceback

from .common import AnalysisError, VERIF
from . import engine

PROPS = ["C%02d" % i for i in range(1, 20)]


def main(argv=None):
    ap = argparse.ArgumentParser(prog="check")
    ap.add_argument("prop", nargs="?")
    ap.add_argument("--tier", default=os.environ.get("VERIF_TIER", "quick"),
                    choices=["quick", "thorough"])
    ap.add_argument("--replay")
    ap.add_argument("--selfcheck", action="store_true")
    ap.add_argument("--no-cache", action="store_true")
    args = ap.parse_args(argv)
    sys.setrecursionlimit(20000)
    if args.selfcheck:
        return selfcheck()
    if args.prop not in PROPS:
        print("ANALYSIS-ERROR unknown property %r" % args.prop)
        return 2
    try:
        seed = int(os.environ.get("VERIF_SEED", "0"))
    except ValueError:
        seed = 0
    t0 = time.time()
    try:
        mod = importlib.import_module("sa.props.%s" % args.prop)
        if args.replay:
            return replay(mod, args.prop, args.replay)
        thorough = args.tier == "thorough"
        res = mod.run(tier=args.tier, seed=seed, use_cache=not (args.no_cache or thorough))
        if thorough:
            from . import selftest
            st = selftest.run(args.prop, seed=seed)
            res.extra["mutation_adequacy"] = {
                "rule": "each breaking operator is applied at up to 3 of its sites in a scratch "
                        "copy of the sources (the variant must still parse) and the quick "
                        "analysis must report a violation; equivalence operators must stay silent",
                "variants": st["variants"], "summary": st["summary"],
                "results": [{k: v for k, v in r.items()} for r in st["results"]],
            }
            res.extra["recomputed_without_cache"] = True
            res.obligations += st["variants"]
            res.instances["SELFTEST"] = st["variants"]
            fa = [r for r in st["results"] if r["outcome"] == "FALSE-ALARM"]
            sv = [r for r in st["results"] if r["outcome"] == "survived"]
            print("%s thorough: %d checker variants: %s" % (args.prop, st["variants"], st["summary"]))
            for r in fa:
                print("  CHECKER-WARNING false alarm on equivalence edit %s (%s:%s) rules=%s"
                      % (r["op"], r["file"], r.get("line"), r.get("rules")))
            for r in sv:
                print("  CHECKER-NOTE surviving mutant %s (%s:%s): %s"
                      % (r["op"], r["file"], r.get("line"), r["what"]))
        return engine.finish(res, args.tier, seed, t0)
    except AnalysisError as e:
        print("ANALYSIS-ERROR property=%s %s" % (args.prop, e))
        return 2
    except Exception:
        print("ANALYSIS-ERROR property=%s internal error:\n%s"
              % (args.prop, traceback.format_exc()))
        return 2


def replay(mod, prop, path):
    with open(path) as f:
        data = json.load(f)
    want = data["finding"]
    res = mod.run(tier="quick", seed=0, use_cache=True)
    for f in res.findings:
        if engine.fkey(f) == engine.fkey(want):
            print("REPRODUCED property=%s rule=%s function=%s at %s:%s"
                  % (prop, f["rule"], f.get("function"), f.get("file"), f.get("line")))
            print("  construct: %s" % f["construct"])
            print("  %s" % f["detail"])
            if f.get("path"):
                print("  path: %s" % " -> ".join(f["path"]))
            return 1
    print("no longer reproduces: %s" % (engine.fkey(want),))
    return 0


def selfcheck():
    from . import cfront
    try:
        print(cfront.clang_version())
        fams = cfront.families()
        print("families:", " ".join(fams))
        for p in PROPS:
            try:
                importlib.import_module("sa.props.%s" % p)
            except ModuleNotFoundError:
                print("note: no check module for %s" % p)
        os.makedirs(os.path.join(VERIF, "evidence"), exist_ok=True)
        return 0
    except AnalysisError as e:
        print("ANALYSIS-ERROR selfcheck: %s" % e)
        return 2


if __name__ == "__main__":
    sys.exit(main())
