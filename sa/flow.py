"""Disjunctive forward dataflow over cfg.CFG.

The abstract state at a node is a *set* of small immutable maps (kept apart,
not joined), which gives the path sensitivity the repository's idioms need
(`copied`, `changed`, `self_got_rebound`, `result = -1; goto Done`, NULL tests).

A state is a frozenset of (key, value) pairs.  Keys starting with "f:" are
the generic *flag* component maintained here: small integer constants of local
scalar variables and NULL-ness of local pointers ("NN" = known non-NULL).
Rule analyses add their own keys.
"""
from .cir import strip, strip_parens, const_int, callee, path, text
from .common import AnalysisError

CAP = 2048


def sget(st, key, default=None):
    for k, v in st:
        if k == key:
            return v
    return default


def sset(st, key, val):
    out = [(k, v) for k, v in st if k != key]
    if val is not None:
        out.append((key, val))
    return frozenset(out)


def sdel(st, key):
    return frozenset((k, v) for k, v in st if k != key)


def sitems(st, prefix):
    return [(k, v) for k, v in st if k.startswith(prefix)]


class Analysis(object):
    """Base class: flag tracking + hooks for rule-specific components."""

    track_flags = True

    def __init__(self, cfg, tu=None):
        self.cfg = cfg
        self.tu = tu
        self.locals = self._locals()
        self.addr_taken = self._addr_taken()
        self.live = self._flag_liveness() if self.track_flags else None

    # -- which variables are local scalars ---------------------------------
    def _locals(self):
        out = {}
        for n in self.cfg.fn.walk():
            if n.k in ("VarDecl", "ParmVarDecl") and n.n:
                st = (n.x or {}).get("storage")
                if st == "static":
                    continue
                out[n.n] = n.t
        # temporaries introduced when the CFG lowered a macro (Py_CLEAR)
        for nd in getattr(self.cfg, "nodes", {}).values() if isinstance(getattr(self.cfg, "nodes", None), dict) \
                else getattr(self.cfg, "nodes", []):
            e = getattr(nd, "e", None)
            if e is not None and e.k == "DeclStmt" and e.mo == "Py_CLEAR":
                for v in e.kids:
                    if v.k == "VarDecl" and v.n:
                        out[v.n] = v.t
        return out

    def _addr_taken(self):
        out = set()
        for n in self.cfg.fn.walk():
            if n.k == "UnaryOperator" and n.v == "&":
                b = strip(n.kids[0])
                if b is not None and b.k == "DeclRefExpr":
                    out.add(b.n)
        return out

    def is_flag_var(self, name):
        t = self.locals.get(name)
        if t is None:
            return False
        t = t.strip()
        while t.startswith(("const ", "volatile ", "register ")):
            t = t.split(" ", 1)[1].strip()
        return t in ("int", "long", "unsigned int", "char", "Py_ssize_t",
                     "long long", "unsigned long", "unsigned long long", "short") or t.endswith("*")

    # -- liveness of flag variables (keeps the disjunctive state small) -------
    def _cond_vars(self, e, out):
        """Variables whose tracked value can decide/refine condition e."""
        e = strip(e)
        if e is None:
            return
        if e.k == "UnaryOperator" and e.v == "!":
            self._cond_vars(e.kids[0], out)
        elif e.k == "BinaryOperator" and e.v == "=":
            pass
        elif e.k == "DeclRefExpr":
            if self.is_flag_var(e.n):
                out.add(e.n)
        elif e.k == "BinaryOperator" and e.v in ("==", "!=", "<", ">", "<=", ">="):
            for side, other in ((0, 1), (1, 0)):
                a = strip(e.kids[side])
                if a is not None and a.k == "DeclRefExpr" and self.is_flag_var(a.n) \
                        and const_int(e.kids[other]) is not None:
                    out.add(a.n)

    def const_call(self, call, st=None):
        """Hook: constant integer a call always returns (summary), or None."""
        return None

    def extra_uses(self, node):
        """Hook: further variables a rule wants kept (e.g. returned flags)."""
        return ()

    def _flag_liveness(self):
        cfg = self.cfg
        use, defs = {}, {}
        for n in cfg.live_nodes():
            u, d = set(), set()
            e = n.e
            if e is not None:
                if n.kind == "branch" and n.unit is None:
                    self._cond_vars(e, u)
                # copies: flag = otherflag   /   T flag = otherflag
                for x in e.walk():
                    if x.k == "BinaryOperator" and x.v == "=":
                        lhs, rhs = strip(x.kids[0]), strip(x.kids[1])
                        if lhs is not None and lhs.k == "DeclRefExpr":
                            d.add(lhs.n)
                            if rhs is not None and rhs.k == "DeclRefExpr" and \
                                    self.is_flag_var(rhs.n):
                                u.add(rhs.n)
                    elif x.k == "VarDecl" and x.n:
                        d.add(x.n)
                        init = [c for c in x.kids if c.k != "Absent"]
                        if init:
                            r = strip(init[-1])
                            if r is not None and r.k == "DeclRefExpr" and self.is_flag_var(r.n):
                                u.add(r.n)
                u.update(self.extra_uses(n))
                # a variable both used and defined in one node: the use wins
            use[n.id], defs[n.id] = u, d - u
        live = {n.id: set() for n in cfg.live_nodes()}
        changed = True
        order = list(reversed(cfg.rpo()))
        while changed:
            changed = False
            for n in order:
                out = set()
                for _, s in n.succ:
                    out |= live.get(s.id, set())
                new = use[n.id] | (out - defs[n.id])
                if new != live[n.id]:
                    live[n.id] = new
                    changed = True
        return live

    def _drop_dead(self, succ, st):
        lv = self.live.get(succ.id)
        if lv is None:
            return st
        drop = [k for k, _ in st if k.startswith("f:") and k[2:] not in lv]
        if not drop:
            return st
        return frozenset((k, v) for k, v in st if k not in drop)

    # -- hooks --------------------------------------------------------------
    def initial(self):
        return frozenset()

    def on_node(self, node, st):
        """Effect of evaluating node.e (stmt/branch/return).  Return a list
        of states (usually one)."""
        return [st]

    def on_edge(self, node, label, st):
        """Refinement along the edge `label` out of a branch node.  Return a
        state or None if the edge is infeasible in this state."""
        return st

    # -- flag component -------------------------------------------------------
    def _kill_calls(self, e, st):
        """&v passed to a call or v assigned: forget v."""
        for n in e.walk():
            if n.k == "UnaryOperator" and n.v == "&":
                b = strip(n.kids[0])
                if b is not None and b.k == "DeclRefExpr" and sget(st, "f:" + b.n) is not None:
                    st = sdel(st, "f:" + b.n)
        return st

    def flag_value_of(self, e, st):
        """abstract value of expression e: int const, "NN", or None."""
        e = strip(e)
        if e is None:
            return None
        c = const_int(e)
        if c is not None:
            return c
        if e.k == "DeclRefExpr" and e.rk in ("VarDecl", "ParmVarDecl"):
            return sget(st, "f:" + e.n)
        if e.k == "UnaryOperator" and e.v == "&":
            return "NN"
        nm = self._named_test(e)
        if nm is not None:
            cur = sget(st, "f:" + nm[0])
            if cur is not None:
                zero = (cur == 0)
                return int(zero if nm[1] == "eq0" else not zero)
        return None

    def _named_test(self, e):
        """(variable, 'eq0' | 'ne0') when e is `v == 0/NULL`, `v != 0/NULL` or `!v`
        for a tracked variable: the value a local naming that test gets"""
        e = strip(e)
        if e is None:
            return None
        if e.k == "UnaryOperator" and e.v == "!":
            a = strip(e.kids[0])
            if a is not None and a.k == "DeclRefExpr" and a.rk in ("VarDecl", "ParmVarDecl") and self.is_flag_var(a.n):
                return (a.n, "eq0")
        if e.k == "BinaryOperator" and e.v in ("==", "!="):
            for x, y in ((e.kids[0], e.kids[1]), (e.kids[1], e.kids[0])):
                a = strip(x)
                if a is not None and a.k == "DeclRefExpr" and a.rk in ("VarDecl", "ParmVarDecl") \
                        and self.is_flag_var(a.n) and const_int(y) == 0:
                    return (a.n, "eq0" if e.v == "==" else "ne0")
        return None

    def _note_named(self, st, name, rhs):
        """remember that `name` names a test of another variable (or forget it)"""
        st = sdel(st, "n:" + name)
        # a reassigned variable invalidates the tests that mention it
        for k, v in list(st):
            if k.startswith("n:") and v[0] == name:
                st = sdel(st, k)
        nm = self._named_test(rhs) if rhs is not None else None
        if nm is not None and nm[0] != name:
            st = sset(st, "n:" + name, nm)
        return st

    def flags_stmt(self, node, st):
        e = node.e
        if e is None:
            return st
        if e.k == "DeclStmt":
            for v in e.kids:
                if v.k == "VarDecl" and self.is_flag_var(v.n):
                    init = [c for c in v.kids if c.k not in ("Absent",)]
                    st = sdel(st, "f:" + v.n)
                    st = self._note_named(st, v.n, init[-1] if init else None)
                    if init:
                        st = self._kill_calls(init[-1], st)
                        val = self.flag_value_of(init[-1], st)
                        if val is not None:
                            st = sset(st, "f:" + v.n, val)
            return st
        st = self._kill_calls(e, st)
        for n in e.walk():
            if n.k == "BinaryOperator" and n.v == "=":
                lhs = strip(n.kids[0])
                if lhs is not None and lhs.k == "DeclRefExpr" and self.is_flag_var(lhs.n):
                    val = self.flag_value_of(n.kids[1], st)
                    st = self._note_named(st, lhs.n, n.kids[1])
                    st = sset(st, "f:" + lhs.n, val)
            elif n.k == "CompoundAssignOperator" or (
                    n.k == "UnaryOperator" and n.v in ("++", "--", "post++", "post--")):
                lhs = strip(n.kids[0])
                if lhs is not None and lhs.k == "DeclRefExpr":
                    st = sdel(st, "f:" + lhs.n)
        return st

    def flags_edge(self, node, label, st):
        """Refine / decide an atomic branch condition on flags."""
        if label not in ("T", "F"):
            return st
        e = strip_parens(node.e)
        want = (label == "T")
        return self._refine(e, want, st)

    def _refine(self, e, want, st):
        e = strip(e)
        if e is None:
            return st
        if e.k == "UnaryOperator" and e.v == "!":
            return self._refine(e.kids[0], not want, st)
        if e.k == "BinaryOperator" and e.v == "=":
            e = strip(e.kids[0])
            if e is None:
                return st
        if e.k == "DeclRefExpr" and e.rk in ("VarDecl", "ParmVarDecl") and self.is_flag_var(e.n):
            cur = sget(st, "f:" + e.n)
            if cur is not None:
                truth = (cur == "NN") or (cur != "NN" and cur != 0)
                return st if truth == want else None
            st = sset(st, "f:" + e.n, "NN" if want else 0)
            nm = sget(st, "n:" + e.n)
            if nm is not None:
                # the variable names a test of another one: that one is decided too
                other_zero = (nm[1] == "eq0") == want
                cur2 = sget(st, "f:" + nm[0])
                if cur2 is not None:
                    if (cur2 == 0) != other_zero:
                        return None
                else:
                    st = sset(st, "f:" + nm[0], 0 if other_zero else "NN")
            return st
        if e.k == "CallExpr":
            cv = self.const_call(e, st)
            if cv is not None:
                return st if bool(cv) == want else None
            return st
        if e.k == "BinaryOperator" and e.v in ("==", "!=", "<", ">", "<=", ">="):
            a, b = strip(e.kids[0]), strip(e.kids[1])
            if a is not None and a.k == "CallExpr" and const_int(b) is not None:
                cv = self.const_call(a, st)
                if cv is not None:
                    cb = const_int(b)
                    truth = {"==": cv == cb, "!=": cv != cb, "<": cv < cb,
                             ">": cv > cb, "<=": cv <= cb, ">=": cv >= cb}[e.v]
                    return st if truth == want else None
            # look through an embedded assignment: (x = f()) == NULL
            if a is not None and a.k == "BinaryOperator" and a.v == "=":
                a = strip(a.kids[0])
            if b is not None and b.k == "BinaryOperator" and b.v == "=":
                b = strip(b.kids[0])
            op = e.v
            # typed constants: (unsigned long long)-1 is 2**64-1, so fold
            # before the casts are stripped
            ca, cb = const_int(e.kids[0]), const_int(e.kids[1])
            if ca is None:
                ca = const_int(a)
            if cb is None:
                cb = const_int(b)
            if ca is not None and cb is None:
                a, b, ca, cb = b, a, cb, ca
                op = {"<": ">", ">": "<", "<=": ">=", ">=": "<="}.get(op, op)
            if cb is not None and a is not None and a.k == "DeclRefExpr" and \
                    a.rk in ("VarDecl", "ParmVarDecl") and self.is_flag_var(a.n):
                cur = sget(st, "f:" + a.n)
                if cur is not None:
                    if cur == "NN":
                        if cb == 0 and op in ("==", "!="):
                            truth = (op == "!=")
                            return st if truth == want else None
                        if (op == "==" and want) or (op == "!=" and not want):
                            return sset(st, "f:" + a.n, cb)
                        return st
                    truth = {"==": cur == cb, "!=": cur != cb, "<": cur < cb,
                             ">": cur > cb, "<=": cur <= cb, ">=": cur >= cb}[op]
                    return st if truth == want else None
                if (op == "==" and want) or (op == "!=" and not want):
                    return sset(st, "f:" + a.n, cb)
                if cb == 0 and self.locals.get(a.n, "").strip().endswith("*") and \
                        ((op == "!=" and want) or (op == "==" and not want)):
                    return sset(st, "f:" + a.n, "NN")
            return st
        return st

    # -- solver ---------------------------------------------------------------
    def solve(self):
        cfg = self.cfg
        IN = {}
        init = self.initial()
        IN[cfg.entry.id] = {init}
        self.parent = {(cfg.entry.id, init): None}
        work = [(cfg.entry, init)]
        steps = 0
        while work:
            node, st = work.pop()
            steps += 1
            if steps > 400000:
                raise AnalysisError("dataflow did not converge in %s" % cfg.name)
            outs = self.flow(node, st)
            for succ, s2 in outs:
                cur = IN.setdefault(succ.id, set())
                if s2 not in cur:
                    cur.add(s2)
                    self.parent[(succ.id, s2)] = (node.id, st)
                    if len(cur) > CAP:
                        raise AnalysisError(
                            "state explosion (> %d) at %s in %s"
                            % (CAP, succ.where, cfg.name))
                    work.append((succ, s2))
        self.IN = IN
        return IN

    def flow(self, node, st):
        """[(succ node, state)]"""
        out = []
        if node.kind in ("stmt", "return", "branch"):
            sts = self.on_node(node, st)
            if self.track_flags and node.kind == "stmt":
                sts = [self.flags_stmt(node, s) for s in sts]
            elif self.track_flags and node.kind == "branch" and node.e is not None \
                    and node.unit is None:
                sts = [self.flags_stmt(node, s) for s in sts]
            elif self.track_flags and node.kind == "return" and node.e is not None:
                sts = [self._kill_calls(node.e, s) for s in sts]
        else:
            sts = [st]
        for s in sts:
            for label, succ in node.succ:
                s2 = s
                if node.kind == "branch":
                    if self.track_flags and node.unit is None and node.note != "switch":
                        s2 = self.flags_edge(node, label, s2)
                        if s2 is None:
                            continue
                    s2 = self.on_edge(node, label, s2)
                    if s2 is None:
                        continue
                if self.track_flags:
                    s2 = self._drop_dead(succ, s2)
                out.append((succ, s2))
        return out


    def witness(self, node, st):
        """Node list of one path from entry reaching (node, st)."""
        out = []
        cur = (node.id, st)
        seen = set()
        while cur is not None and cur not in seen:
            seen.add(cur)
            out.append(self.cfg.nodes[cur[0]])
            cur = self.parent.get(cur)
        out.reverse()
        return out


def witness_lines(nodes):
    """Compress a node path to a list of distinct file:line strings."""
    out = []
    for n in nodes:
        w = n.where
        if w != "?" and (not out or out[-1] != w):
            out.append(w)
    return out
