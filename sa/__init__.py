"""Static analysis engine for zopefoundation/BTrees (see /verif/DESIGN.md)."""
ENGINE_VERSION = "2026-09-29.5"
