"""Shared plumbing: paths, errors, exit codes."""
import os

REPO = os.environ.get("VERIF_REPO", "/repo")
VERIF = os.path.dirname(os.path.dirname(os.path.abspath(__file__)))
SRC = "src/BTrees"


class AnalysisError(Exception):
    """The analysis itself cannot proceed (vanished anchor, unknown idiom).

    Reported as ANALYSIS-ERROR, exit code 2; never a pass, never a VIOLATION.
    """


def repo_path(*parts):
    return os.path.join(REPO, *parts)


def read_repo(rel):
    with open(repo_path(rel), "rb") as f:
        return f.read()


def read_repo_text(rel):
    return read_repo(rel).decode("utf-8", "replace")
