"""Call graph of a TU (direct calls + function-pointer slots resolved by
assignment) and reachability helpers."""
from .cir import strip, callee, path


def slot_targets(tu):
    """{slot path suffix: set(function names)} for function-pointer fields
    assigned in the TU, e.g. 'next' -> {nextBucket, nextSet, ...}."""
    out = {}
    for fn in tu.funcs.values():
        for n in fn.walk():
            if n.k == "BinaryOperator" and n.v == "=":
                l0, r0 = strip(n.kids[0]), strip(n.kids[1])
                if l0 is not None and l0.k == "MemberExpr" and r0 is not None and \
                        r0.k == "DeclRefExpr" and r0.rk == "FunctionDecl":
                    out.setdefault(l0.n, set()).add(r0.n)
    return out


def build(tu):
    """{function: set(callees that are repo functions)}; capi/ext calls are
    recorded as pseudo nodes 'capi:<member>' / 'ext:<name>'."""
    slots = slot_targets(tu)
    g = {}
    for name, fn in tu.funcs.items():
        cs = set()
        for n in fn.walk():
            if n.k != "CallExpr":
                continue
            c = callee(n)
            if c[0] == "fn":
                cs.add(c[1] if c[1] in tu.funcs else "ext:" + c[1])
            elif c[0] == "capi":
                cs.add("capi:" + c[1])
            elif c[0] == "ptr" and c[1]:
                field = c[1].replace("->", ".").split(".")[-1]
                for t in slots.get(field, ()):
                    cs.add(t)
        g[name] = cs
    return g


def reach(g, start):
    seen = set()
    stack = [start]
    while stack:
        n = stack.pop()
        if n in seen:
            continue
        seen.add(n)
        stack.extend(g.get(n, ()))
    return seen


def path_to(g, start, target):
    """One call path start -> ... -> target (list) or None."""
    prev = {start: None}
    queue = [start]
    while queue:
        n = queue.pop(0)
        if n == target:
            out = []
            while n is not None:
                out.append(n)
                n = prev[n]
            return list(reversed(out))
        for m in sorted(g.get(n, ())):
            if m not in prev:
                prev[m] = n
                queue.append(m)
    return None
