"""Driver plumbing: per-TU parallel map, finding aggregation, known findings,
evidence and replay files, exit codes."""
import hashlib
import importlib
import json
import os
import sys
import time
import traceback
from concurrent.futures import ProcessPoolExecutor

from . import cfront
from .common import AnalysisError, VERIF, REPO


# --------------------------------------------------------------------------
# findings

def fkey(f):
    return (f["rule"], f.get("function") or "", f["construct"])


class Findings(object):
    """Findings aggregated over families by (rule, function, construct)."""

    def __init__(self):
        self.items = {}

    def add(self, f, family=None):
        k = fkey(f)
        cur = self.items.get(k)
        if cur is None:
            cur = dict(f)
            cur["families"] = []
            cur["count"] = 0
            cur["sites"] = []
            self.items[k] = cur
        if family is not None and family not in cur["families"]:
            cur["families"].append(family)
        site = "%s:%s" % (f.get("file"), f.get("line"))
        if site not in cur["sites"]:
            cur["sites"].append(site)
            cur["count"] = len(cur["sites"])

    def extend(self, fs, family=None):
        for f in fs:
            self.add(f, family)

    def __iter__(self):
        return iter(sorted(self.items.values(), key=lambda f: (
            f["rule"], f.get("file") or "", f.get("line") or 0, f["construct"])))

    def __len__(self):
        return len(self.items)


# --------------------------------------------------------------------------
# per-TU map

def _tu_worker(args):
    modname, funcname, family, use_cache, extra = args
    try:
        sys.setrecursionlimit(20000)
        tu = cfront._cached_load(family, use_cache)
        mod = importlib.import_module(modname)
        res = getattr(mod, funcname)(tu, **(extra or {}))
        return family, res, None
    except AnalysisError as e:
        return family, None, "%s: %s" % (family, e)
    except Exception:
        return family, None, "%s: internal error\n%s" % (family, traceback.format_exc())


def map_tus(modname, funcname, fams=None, use_cache=True, extra=None, jobs=None):
    """Run sa.<modname>.<funcname>(tu) for every family in worker processes.

    Returns {family: result}.  Any failure is an AnalysisError."""
    allf = cfront.families()
    on_disk = sorted(cfront._all_stub_names())
    if sorted(allf) != on_disk:
        raise AnalysisError("build matrix mismatch: setup.py FAMILIES %s vs "
                            "stub files %s" % (sorted(allf), on_disk))
    fams = list(fams or allf)
    jobs = jobs or min(len(fams), os.cpu_count() or 4)
    out = {}
    tasks = [(modname, funcname, f, use_cache, extra) for f in fams]
    if jobs <= 1 or len(fams) == 1:
        it = map(_tu_worker, tasks)
        for fam, res, err in it:
            if err:
                raise AnalysisError(err)
            out[fam] = res
        return out
    with ProcessPoolExecutor(max_workers=jobs) as ex:
        for fam, res, err in ex.map(_tu_worker, tasks):
            if err:
                raise AnalysisError(err)
            out[fam] = res
    return out


# --------------------------------------------------------------------------
# known findings

def load_known():
    p = os.path.join(VERIF, "known_findings.json")
    if not os.path.exists(p):
        return []
    with open(p) as f:
        data = json.load(f)
    return data.get("findings", [])


def match_known(prop, finding, known):
    """The 'known' entry (status == known) that lists this finding, or None."""
    for k in known:
        if k.get("status") != "known":
            continue
        if k.get("property") != prop:
            continue
        if k.get("rule") != finding["rule"]:
            continue
        if (k.get("function") or "") != (finding.get("function") or ""):
            continue
        if k.get("construct") != finding["construct"]:
            continue
        if finding.get("count", 1) > k.get("count", 1):
            continue
        return k
    return None


# --------------------------------------------------------------------------
# result of one property check

class Result(object):
    def __init__(self, prop):
        self.prop = prop
        self.findings = Findings()
        self.obligations = 0          # obligations checked
        self.instances = {}           # rule -> number of distinct instances
        self.samples = []
        self.units = {}
        self.rules = []
        self.floors = {}
        self.floor_failures = []
        self.notes = []
        self.explanation = ""
        self.assumptions = []
        self.level = "other"
        self.exhaustive = None
        self.extra = {}

    def floor(self, what, got, minimum):
        """Instance floor: fewer than confirmed by hand is an analysis error."""
        self.floors[what] = {"found": got, "floor": minimum}
        if got < minimum:
            # decided in finish(): a violation found by the rules that did
            # match takes precedence over the missing instances
            self.floor_failures.append(
                "instance floor: %s found %d < %d (anchor vanished or "
                "recogniser out of date)" % (what, got, minimum))

    def count(self, rule, n):
        self.instances[rule] = self.instances.get(rule, 0) + n
        self.obligations += n


def finish(res, tier, seed, t0):
    """Print the verdict, write evidence + replay files, return exit code."""
    known = load_known()
    viol, kf = [], []
    for f in res.findings:
        k = match_known(res.prop, f, known)
        if k is not None:
            kf.append((f, k))
        else:
            viol.append(f)
    # A listed finding whose code was moved (into a helper, out of a macro) keeps
    # its identity: same rule, same construct text behind the site prefix, and the
    # listed site itself no longer reports it.  One listed entry covers one moved
    # finding, so a second site with the same defect is still a violation.
    def _tail(c):
        return c.split(": ", 1)[1] if ": " in c else c
    used = set(id(k) for _f, k in kf)
    still = []
    for f in viol:
        moved = None
        for k in known:
            if k.get("status") == "known" and k.get("property") == res.prop and id(k) not in used and \
                    k.get("rule") == f["rule"] and _tail(k.get("construct", "")) == _tail(f["construct"]) and \
                    f.get("count", 1) <= k.get("count", 1):
                moved = k
                break
        if moved is not None:
            used.add(id(moved))
            f = dict(f)
            f["moved_from"] = moved.get("function")
            kf.append((f, moved))
        else:
            still.append(f)
    viol = still
    if res.floor_failures and not viol:
        raise AnalysisError("; ".join(res.floor_failures))
    for ff in res.floor_failures:
        print("NOTE property=%s %s" % (res.prop, ff))
    os.makedirs(os.path.join(VERIF, "replays"), exist_ok=True)
    for f, k in kf:
        print("KNOWN-FINDING: property=%s %s [%s %s %s]" % (
            res.prop, k.get("what", f["detail"]), f["rule"],
            f.get("function") or "-", f["construct"]))
    for f in viol:
        key = hashlib.sha1(repr(fkey(f)).encode()).hexdigest()[:10]
        rp = os.path.join(VERIF, "replays", "%s-%s.json" % (res.prop, key))
        with open(rp, "w") as fh:
            json.dump({"property": res.prop, "finding": f}, fh, indent=1, default=str)
        print("VIOLATION property=%s replay=%s" % (res.prop, rp))
        print("  rule=%s function=%s at %s:%s families=%s" % (
            f["rule"], f.get("function") or "-", f.get("file"), f.get("line"),
            ",".join(f.get("families") or []) or "-"))
        print("  construct: %s" % f["construct"])
        print("  %s" % f["detail"])
        if f.get("path"):
            p = f["path"]
            if len(p) > 14:
                p = p[:6] + ["..."] + p[-7:]
            print("  path: %s" % " -> ".join(p))
    wall = time.time() - t0
    distinct = sum(1 for v in res.instances.values() if v > 0)
    cov = {
        "explanation": res.explanation,
        "evaluations": max(1, res.obligations),
        "distinct_nontrivial": max(len(res.instances), sum(res.instances.values())),
        "rule": "obligation = one (rule, construct) pair decided by the analysis; "
                "distinct_nontrivial = number of obligations that involve at "
                "least one event of the rule (sum over rules of instance counts)",
        "samples": res.samples[:12] or ["(none)"],
        "units": res.units,
        "rules": res.rules,
        "instances_per_rule": res.instances,
        "floors": res.floors,
        "known_findings": [{"rule": f["rule"], "function": f.get("function"),
                            "construct": f["construct"],
                            "families": f.get("families")} for f, _ in kf],
        "violations": [{"rule": f["rule"], "function": f.get("function"),
                        "construct": f["construct"], "file": f.get("file"),
                        "line": f.get("line"), "families": f.get("families")}
                       for f in viol],
        "notes": res.notes,
    }
    if res.exhaustive is not None:
        cov["exhaustive"] = res.exhaustive
    cov.update(res.extra)
    if res.level == "proof":
        cov["obligations"] = max(1, res.obligations)
        cov["discharged"] = max(1, res.obligations) if not viol else max(0, res.obligations - len(viol))
        cov.setdefault("checker_cmd", "./check %s --tier %s" % (res.prop, tier))
        cov.setdefault("trusted_base", ["sa/ (this analysis engine)",
                                        "CPython ast module"])
    ev = {
        "property_id": res.prop,
        "tier": tier,
        "seed": int(seed),
        "level": res.level,
        "coverage": cov,
        "assumptions": res.assumptions,
        "wall_s": round(wall, 3),
        "violations": len(viol),
    }
    if not os.environ.get("VERIF_NO_EVIDENCE"):
        os.makedirs(os.path.join(VERIF, "evidence"), exist_ok=True)
        with open(os.path.join(VERIF, "evidence", "%s.json" % res.prop), "w") as fh:
            json.dump(ev, fh, indent=1, default=str)
    print("%s %s: %d obligations, %d rule instances, %d known finding(s), "
          "%d violation(s), %.1fs" % (res.prop, tier, res.obligations,
                                      sum(res.instances.values()), len(kf),
                                      len(viol), wall))
    return 1 if viol else 0
