"""Registered tables of a TU: PyMethodDef arrays, type objects and their
slot suites, resolved to function names (from the initialisers in the AST)."""
from .cir import strip
from .common import AnalysisError


def _strlit(e):
    e = strip(e)
    if e is not None and e.k == "StringLiteral":
        v = e.v or ""
        if len(v) >= 2 and v[0] == '"' and v[-1] == '"':
            v = v[1:-1]
        return v
    return None


def _funcref(e):
    e = strip(e)
    if e is not None and e.k == "DeclRefExpr" and e.rk == "FunctionDecl":
        return e.n
    return None


def _varref(e):
    e = strip(e)
    if e is not None and e.k == "UnaryOperator" and e.v == "&":
        e = strip(e.kids[0])
    if e is not None and e.k == "DeclRefExpr" and e.rk == "VarDecl":
        return e.n
    return None


def method_tables(tu):
    """{table var: [(python name, C function, flags int or None)]}"""
    out = {}
    for name, g in tu.globals.items():
        if not (g.t or "").startswith("struct PyMethodDef["):
            continue
        rows = []
        init = g.kids[0] if g.kids else None
        if init is None or init.k != "InitListExpr":
            continue
        for row in init.kids:
            if row.k != "InitListExpr" or len(row.kids) < 2:
                continue
            pyname = _strlit(row.kids[0])
            fn = _funcref(row.kids[1])
            if pyname is None or fn is None:
                continue
            rows.append((pyname, fn))
        out[name] = rows
    return out


def _slots_of(tu, g, recname):
    fields = tu.sysrecords.get(recname) or [f for f, _ in tu.records.get(recname, [])]
    init = g.kids[0] if g.kids else None
    if init is None or init.k != "InitListExpr" or not fields:
        return {}
    out = {}
    kids = list(init.kids)
    # PyTypeObject: first initialiser is the PyVarObject head (ob_base)
    for fname, val in zip(fields, kids):
        fr = _funcref(val)
        if fr is not None:
            out[fname] = ("fn", fr)
            continue
        vr = _varref(val)
        if vr is not None:
            out[fname] = ("var", vr)
            continue
        sl = _strlit(val)
        if sl is not None:
            out[fname] = ("str", sl)
    return out


_SUITES = {"PyNumberMethods": "PyNumberMethods", "PySequenceMethods": "PySequenceMethods",
           "PyMappingMethods": "PyMappingMethods"}


def type_objects(tu):
    """{type var: {slot: ("fn", name) | ("var", name) | ("str", s)}} with the
    number/sequence/mapping suites flattened in (nb_or, sq_contains, ...)."""
    out = {}
    for name, g in tu.globals.items():
        if g.t != "struct _typeobject":
            continue
        slots = _slots_of(tu, g, "_typeobject")
        flat = dict(slots)
        for slot, (kind, val) in list(slots.items()):
            if kind == "var" and val in tu.globals:
                sub = tu.globals[val]
                rec = (sub.t or "")
                if rec in _SUITES:
                    flat.update(_slots_of(tu, sub, rec))
                elif (sub.x or {}).get("qt") in _SUITES:
                    flat.update(_slots_of(tu, sub, (sub.x or {}).get("qt")))
        out[name] = flat
    return out


def py_methods(tu):
    """{(type var, python method name): C function} via tp_methods."""
    mt = method_tables(tu)
    out = {}
    for tname, slots in type_objects(tu).items():
        tm = slots.get("tp_methods")
        if tm and tm[0] == "var":
            for pyname, fn in mt.get(tm[1], []):
                out[(tname, pyname)] = fn
    return out
