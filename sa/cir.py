"""Expression helpers over the compact C IR (see cfront.N)."""
import re
from .common import AnalysisError

CASTS = ("ParenExpr", "ImplicitCastExpr", "CStyleCastExpr")


def strip(e):
    """Remove parentheses and casts."""
    while e is not None and e.k in CASTS and e.kids:
        e = e.kids[-1]
    return e


def strip_parens(e):
    while e is not None and e.k == "ParenExpr" and e.kids:
        e = e.kids[0]
    return e


_UWIDTH = {"unsigned int": 32, "unsigned long": 64, "unsigned long long": 64,
           "unsigned char": 8, "unsigned short": 16, "size_t": 64}
_SWIDTH = {"int": 32, "long": 64, "long long": 64, "char": 8, "short": 16,
           "signed char": 8}


def _wrap(v, t):
    t = (t or "").strip()
    if t in _UWIDTH:
        return v & ((1 << _UWIDTH[t]) - 1)
    if t in _SWIDTH:
        w = _SWIDTH[t]
        v &= (1 << w) - 1
        return v - (1 << w) if v >> (w - 1) else v
    return v


def const_int(e):
    """Integer value of a constant expression (casts to integer types wrap
    like C), else None."""
    if e is None:
        return None
    k = e.k
    if k in ("ParenExpr", "ConstantExpr"):
        return const_int(e.kids[0]) if e.kids else None
    if k in ("ImplicitCastExpr", "CStyleCastExpr"):
        v = const_int(e.kids[-1]) if e.kids else None
        if v is None:
            return None
        if e.v in ("IntegralCast", "NoOp", "LValueToRValue", "IntegralToBoolean"):
            return _wrap(v, e.t)
        if e.v in ("NullToPointer", "IntegralToPointer", "BitCast", "ToVoid",
                   "IntegralToFloating"):
            return v
        return None
    if k == "IntegerLiteral":
        try:
            return int(e.v)
        except (TypeError, ValueError):
            return None
    if k == "CharacterLiteral":
        return e.v if isinstance(e.v, int) else None
    if k == "UnaryExprOrTypeTraitExpr" and e.v == "sizeof":
        t = ((e.x or {}).get("argType") or (e.kids[0].t if e.kids else "") or "").strip()
        mult = 1
        while True:
            m = re.match(r"^(.*\S)\s*\[(\d+)\]$", t)
            if not m:
                break
            t, mult = m.group(1).strip(), mult * int(m.group(2))
        w = _UWIDTH.get(t) or _SWIDTH.get(t) or {"float": 32, "double": 64}.get(t)
        if w is None and t.endswith("*"):
            w = 64
        return mult * w // 8 if w else None
    if k == "UnaryOperator" and e.v in ("-", "+", "~", "!"):
        v = const_int(e.kids[0])
        if v is None:
            return None
        r = {"-": -v, "+": v, "~": ~v, "!": int(not v)}[e.v]
        return _wrap(r, e.t) if e.v != "!" else r
    if k == "BinaryOperator" and e.v in ("+", "-", "*", "<<", ">>", "|", "&",
                                         "<", ">", "<=", ">=", "==", "!="):
        a, b = const_int(e.kids[0]), const_int(e.kids[1])
        if a is None or b is None:
            return None
        try:
            r = {"+": lambda: a + b, "-": lambda: a - b, "*": lambda: a * b,
                 "<<": lambda: a << b, ">>": lambda: a >> b, "|": lambda: a | b,
                 "&": lambda: a & b, "<": lambda: int(a < b), ">": lambda: int(a > b),
                 "<=": lambda: int(a <= b), ">=": lambda: int(a >= b),
                 "==": lambda: int(a == b), "!=": lambda: int(a != b)}[e.v]()
        except Exception:
            return None
        if e.v in ("<", ">", "<=", ">=", "==", "!="):
            return r
        return _wrap(r, e.t)
    return None


def is_null(e):
    """NULL / 0 pointer constant."""
    v = const_int(e)
    return v == 0


def path(e):
    """Access path of an lvalue-ish expression, or None.

    Casts and parentheses are transparent; array indices are rendered by text.
    """
    e = strip(e)
    if e is None:
        return None
    k = e.k
    if k == "DeclRefExpr":
        return e.n
    if k == "MemberExpr":
        b = path(e.kids[0])
        if b is None:
            return None
        return "%s%s%s" % (b, e.v, e.n)
    if k == "ArraySubscriptExpr":
        b = path(e.kids[0])
        if b is None:
            return None
        return "%s[%s]" % (b, text(e.kids[1]))
    if k == "UnaryOperator" and e.v == "&":
        b = path(e.kids[0])
        return None if b is None else "&" + b
    if k == "UnaryOperator" and e.v == "*":
        b = path(e.kids[0])
        return None if b is None else "*" + b
    return None


def base_var(e):
    """The root variable name of an access path expression."""
    e = strip(e)
    while e is not None:
        if e.k == "DeclRefExpr":
            return e.n
        if e.k in ("MemberExpr", "ArraySubscriptExpr") or (
                e.k == "UnaryOperator" and e.v in ("&", "*")):
            e = strip(e.kids[0])
            continue
        return None
    return None


_BINPREC = None


def text(e):
    """Normalised source-like text of an expression (stable across layout)."""
    if e is None:
        return ""
    k = e.k
    if k in ("ParenExpr",):
        return text(e.kids[0])
    if k == "ImplicitCastExpr":
        return text(e.kids[0])
    if k == "CStyleCastExpr":
        return "(%s)%s" % (e.t, text(e.kids[0]))
    if k == "DeclRefExpr":
        return e.n or "?"
    if k == "MemberExpr":
        return "%s%s%s" % (text(e.kids[0]), e.v, e.n)
    if k == "ArraySubscriptExpr":
        return "%s[%s]" % (text(e.kids[0]), text(e.kids[1]))
    if k in ("IntegerLiteral", "FloatingLiteral", "CharacterLiteral"):
        return str(e.v)
    if k == "StringLiteral":
        return str(e.v)
    if k == "UnaryOperator":
        if e.v and e.v.startswith("post"):
            return "%s%s" % (text(e.kids[0]), e.v[4:])
        return "%s%s" % (e.v, text(e.kids[0]))
    if k in ("BinaryOperator", "CompoundAssignOperator"):
        return "(%s %s %s)" % (text(e.kids[0]), e.v, text(e.kids[1]))
    if k == "ConditionalOperator":
        return "(%s ? %s : %s)" % tuple(text(c) for c in e.kids[:3])
    if k == "CallExpr":
        return "%s(%s)" % (text(e.kids[0]), ", ".join(text(a) for a in e.kids[1:]))
    if k == "UnaryExprOrTypeTraitExpr":
        if e.kids:
            return "%s(%s)" % (e.v, text(e.kids[0]))
        return "%s(%s)" % (e.v, (e.x or {}).get("argType", "?"))
    if k == "InitListExpr":
        return "{%s}" % ", ".join(text(c) for c in e.kids)
    if k == "ImplicitValueInitExpr":
        return "0"
    if k == "VarDecl":
        if e.kids:
            return "%s %s = %s" % (e.t, e.n, text(e.kids[-1]))
        return "%s %s" % (e.t, e.n)
    if k == "DeclStmt":
        return "; ".join(text(c) for c in e.kids)
    if k == "ReturnStmt":
        return "return %s" % (text(e.kids[0]) if e.kids else "")
    if k == "GotoStmt":
        return "goto %s" % e.n
    if k == "StmtExpr":
        return "({...})"
    if k in ("NullStmt", "Absent"):
        return ""
    if k == "ConstantExpr":
        return text(e.kids[0]) if e.kids else "?"
    return "<%s>" % k


def callee(call):
    """Classify the callee of a CallExpr.

    ("fn", name)            direct call
    ("capi", member)        call through cPersistenceCAPI-><member>
    ("ptr", path)           call through another pointer (function-pointer slot)
    """
    f = strip(call.kids[0])
    if f is None:
        return ("ptr", None)
    if f.k == "DeclRefExpr" and f.rk == "FunctionDecl":
        return ("fn", f.n)
    if f.k == "MemberExpr":
        b = strip(f.kids[0])
        if b is not None and b.k == "DeclRefExpr" and b.n == "cPersistenceCAPI":
            return ("capi", f.n)
        return ("ptr", path(f))
    if f.k == "DeclRefExpr":
        return ("ptr", f.n)
    if f.k == "UnaryOperator" and f.v == "*":
        return ("ptr", path(f.kids[0]))
    return ("ptr", path(f))


def call_args(call):
    return list(call.kids[1:])


def calls_in(e):
    """All CallExpr nodes under e, in evaluation-ish (document) order."""
    return [n for n in e.walk() if n.k == "CallExpr"]


def is_assign(e):
    e = strip_parens(e)
    return e is not None and e.k == "BinaryOperator" and e.v == "="


def is_pointer_type(t):
    return bool(t) and t.rstrip().endswith("*")


def pointee(t):
    if not is_pointer_type(t):
        return None
    return t.rstrip()[:-1].strip()


def require(cond, msg):
    if not cond:
        raise AnalysisError(msg)
