"""C front end: clang's type-checked JSON AST -> compact per-TU IR.

Nothing of BTrees is executed.  For every extension stub listed in setup.py's
FAMILIES the real build flags are used (sysconfig CFLAGS -D/-U/-f options,
setup.py's EXCLUDE_INTSET_SUPPORT rule) and `clang -fsyntax-only -Xclang
-ast-dump=json` is run with cwd = the repository.  The JSON is reduced to the
declarations that come from repository files; locations are restored (clang
elides repeated file/line) and every node gets macro provenance:

  mo  - name of the OUTERMOST macro invoked at the expansion site
  mi  - name of the macro in whose #define body the node's first token is
        spelled (INNERMOST), None when spelled at the use site (macro argument)
"""
import ast
import hashlib
import json
import os
import pickle
import re
import shlex
import subprocess
import sys
import sysconfig
from concurrent.futures import ProcessPoolExecutor

from . import ENGINE_VERSION
from .common import REPO, SRC, VERIF, AnalysisError, read_repo, read_repo_text

CLANG = "clang"


class N(object):
    """Compact AST node."""
    __slots__ = ("k", "t", "n", "v", "d", "r", "rk", "f", "l", "c", "le",
                 "sf", "sl", "mo", "mi", "kids", "x")

    def __init__(self):
        self.k = None      # clang node kind
        self.t = None      # type (desugared when available)
        self.n = None      # name (decl name / referenced decl / member / label)
        self.v = None      # value / opcode / castKind
        self.d = None      # id of this decl (Decl nodes), or target label decl
        self.r = None      # id of referenced decl (DeclRefExpr/MemberExpr)
        self.rk = None     # kind of referenced decl
        self.f = None      # file of the expansion location of the first token
        self.l = None      # line  "
        self.c = None      # col   "
        self.le = None     # last line (expansion)
        self.sf = None     # spelling file (macro tokens only)
        self.sl = None     # spelling line
        self.mo = None
        self.mi = None
        self.kids = ()
        self.x = None      # extra (dict) - rarely used

    def walk(self):
        stack = [self]
        while stack:
            n = stack.pop()
            yield n
            stack.extend(reversed(n.kids))

    def find(self, kind):
        return [n for n in self.walk() if n.k == kind]

    @property
    def where(self):
        return "%s:%s" % (self.f, self.l)

    def __repr__(self):
        return "<%s %s %s @%s:%s>" % (self.k, self.n or "", self.v or "",
                                     self.f, self.l)


# --------------------------------------------------------------------------
# build matrix

def families():
    """FAMILIES from setup.py, by ast (never imported)."""
    tree = ast.parse(read_repo_text("setup.py"))
    for node in tree.body:
        if isinstance(node, ast.Assign) and any(
                isinstance(t, ast.Name) and t.id == "FAMILIES"
                for t in node.targets):
            try:
                fams = [ast.literal_eval(e) for e in node.value.elts]
            except Exception as e:  # pragma: no cover
                raise AnalysisError("setup.py FAMILIES not a literal tuple: %s" % e)
            if not fams:
                raise AnalysisError("setup.py FAMILIES is empty")
            return fams
    raise AnalysisError("setup.py: FAMILIES not found")


def stub_of(family):
    return "%s/_%sBTree.c" % (SRC, family)


def python_include():
    return sysconfig.get_paths()["include"]


def build_flags(family):
    flags = []
    cflags = sysconfig.get_config_var("CFLAGS") or ""
    for tok in shlex.split(cflags):
        if tok.startswith(("-D", "-U", "-fno-strict", "-fwrapv")):
            flags.append(tok)
    if "-DNDEBUG" not in flags:
        flags.append("-DNDEBUG")
    if family[0] != "O":
        flags.append("-DEXCLUDE_INTSET_SUPPORT")
    return flags


def clang_cmd(family, extra=()):
    return ([CLANG, "-fsyntax-only", "-w", "-Xclang", "-ast-dump=json",
             "-Iinclude/persistent", "-I" + python_include()]
            + build_flags(family) + list(extra) + [stub_of(family)])


_clang_version = None


def clang_version():
    global _clang_version
    if _clang_version is None:
        try:
            out = subprocess.run([CLANG, "--version"], capture_output=True,
                                 text=True, check=True).stdout
        except Exception as e:
            raise AnalysisError("clang not callable: %s" % e)
        _clang_version = out.splitlines()[0]
    return _clang_version


# --------------------------------------------------------------------------
# consulted files and digests

def c_source_files():
    out = []
    d = os.path.join(REPO, SRC)
    for fn in sorted(os.listdir(d)):
        if fn.endswith((".c", ".h")):
            out.append("%s/%s" % (SRC, fn))
    inc = "include/persistent/persistent"
    for fn in sorted(os.listdir(os.path.join(REPO, inc))):
        if fn.endswith(".h"):
            out.append("%s/%s" % (inc, fn))
    return out


def tu_digest(family):
    h = hashlib.sha256()
    h.update(ENGINE_VERSION.encode())
    h.update(_self_digest())
    h.update(clang_version().encode())
    h.update(" ".join(clang_cmd(family)).encode())
    stubs = set(stub_of(f) for f in _all_stub_names())
    for rel in c_source_files():
        if rel in stubs and rel != stub_of(family):
            continue
        h.update(rel.encode())
        h.update(read_repo(rel))
    return h.hexdigest()[:24]


_selfd = None


def _self_digest():
    global _selfd
    if _selfd is None:
        with open(os.path.abspath(__file__), "rb") as f:
            _selfd = hashlib.sha256(f.read()).digest()
    return _selfd


def _all_stub_names():
    d = os.path.join(REPO, SRC)
    out = []
    for fn in os.listdir(d):
        m = re.match(r"_(\w+)BTree\.c$", fn)
        if m:
            out.append(m.group(1))
    return out


# --------------------------------------------------------------------------
# #define table (continuation aware)

_DEFINE = re.compile(r"^[ \t]*#[ \t]*define[ \t]+([A-Za-z_][A-Za-z0-9_]*)")


def define_table(rel):
    """[(first_line, last_line, name)] for every #define in the file."""
    try:
        text = read_repo_text(rel)
    except OSError:
        return []
    lines = text.split("\n")
    out = []
    i = 0
    while i < len(lines):
        m = _DEFINE.match(lines[i])
        if m:
            start = i
            while lines[i].rstrip().endswith("\\") and i + 1 < len(lines):
                i += 1
            out.append((start + 1, i + 1, m.group(1)))
        i += 1
    return out


class _Macros(object):
    def __init__(self):
        self.tables = {}
        self.bytes = {}

    def inner(self, f, line):
        if f is None or line is None:
            return None
        if not _is_repo_file(f):
            return None
        t = self.tables.get(f)
        if t is None:
            t = self.tables[f] = define_table(f)
        for a, b, name in t:
            if a <= line <= b:
                return name
        return None

    def outer(self, f, offset, toklen):
        if f is None or not _is_repo_file(f):
            return None
        b = self.bytes.get(f)
        if b is None:
            try:
                b = self.bytes[f] = read_repo(f)
            except OSError:
                b = self.bytes[f] = b""
        tok = b[offset:offset + toklen].decode("ascii", "replace")
        if re.match(r"^[A-Za-z_][A-Za-z0-9_]*$", tok):
            return tok
        return None


def _is_repo_file(f):
    return f.startswith("src/BTrees/") or f.startswith("include/persistent/")


# --------------------------------------------------------------------------
# JSON -> IR

class _Conv(object):
    def __init__(self):
        self.file = None
        self.line = None
        self.macros = _Macros()
        self.labels = {}

    # ---- location state (document order!) --------------------------------
    def _bare(self, loc):
        """Update state from one bare location; return (file, line, col)."""
        if "offset" not in loc:
            return None
        f = loc.get("file")
        if f is not None:
            self.file = f
        ln = loc.get("line")
        if ln is not None:
            self.line = ln
        return (self.file, self.line, loc.get("col"), loc["offset"],
                loc.get("tokLen", 0))

    def _loc(self, loc):
        """Handle a possibly macro location.  Returns (exp, spell)."""
        if not loc:
            return None, None
        if "spellingLoc" in loc or "expansionLoc" in loc:
            sp = ex = None
            # emission order: spellingLoc first, then expansionLoc
            for key, val in loc.items():
                if key == "spellingLoc":
                    sp = self._bare(val)
                elif key == "expansionLoc":
                    ex = self._bare(val)
            return ex, sp
        return self._bare(loc), None

    def skip(self, node):
        """Walk a subtree only to keep the location state in step."""
        stack = [node]
        bare = self._bare
        while stack:
            x = stack.pop()
            if isinstance(x, dict):
                if "offset" in x:
                    bare(x)
                    continue
                # children pushed reversed to pop in document order
                vals = [v for v in x.values() if isinstance(v, (dict, list))]
                stack.extend(reversed(vals))
            else:
                stack.extend(reversed([v for v in x if isinstance(v, (dict, list))]))

    def conv(self, j):
        n = N()
        n.k = j.get("kind")
        # order of emission in clang's JSON: id, kind, loc, range, ..., inner
        exp = sp = None
        if "loc" in j:
            e, s = self._loc(j["loc"])
            # decl's own loc (name token); keep as fallback
            decl_loc = (e, s)
        else:
            decl_loc = (None, None)
        rng = j.get("range")
        end = None
        if rng:
            exp, sp = self._loc(rng.get("begin"))
            end, _ = self._loc(rng.get("end"))
        if exp is None:
            exp, sp = decl_loc
        if exp is not None:
            n.f, n.l, n.c = exp[0], exp[1], exp[2]
            if sp is not None:
                n.sf, n.sl = sp[0], sp[1]
                n.mo = self.macros.outer(exp[0], exp[3], exp[4])
                n.mi = self.macros.inner(sp[0], sp[1])
        if end is not None:
            n.le = end[1]
        t = j.get("type")
        if t:
            n.t = t.get("desugaredQualType") or t.get("qualType")
            if "desugaredQualType" in t:
                n.x = {"qt": t.get("qualType")}
        k = n.k
        if "name" in j:
            n.n = j["name"]
        if k == "DeclRefExpr":
            rd = j.get("referencedDecl") or {}
            n.n = rd.get("name")
            n.r = rd.get("id")
            n.rk = rd.get("kind")
        elif k == "MemberExpr":
            n.v = "->" if j.get("isArrow") else "."
            n.r = j.get("referencedMemberDecl")
        elif k in ("BinaryOperator", "UnaryOperator", "CompoundAssignOperator"):
            n.v = j.get("opcode")
            if k == "UnaryOperator" and j.get("isPostfix"):
                n.v = "post" + n.v
        elif k in ("ImplicitCastExpr", "CStyleCastExpr"):
            n.v = j.get("castKind")
        elif k in ("IntegerLiteral", "FloatingLiteral", "StringLiteral",
                   "CharacterLiteral"):
            n.v = j.get("value")
        elif k == "GotoStmt":
            n.d = j.get("targetLabelDeclId")
        elif k == "LabelStmt":
            n.d = j.get("declId")
            self.labels[n.d] = n.n
        elif k == "UnaryExprOrTypeTraitExpr":
            n.v = j.get("name")
            at = j.get("argType")
            if at:
                n.x = {"argType": at.get("desugaredQualType") or at.get("qualType")}
        elif k == "IfStmt":
            if j.get("hasElse"):
                n.v = "else"
        if k and k.endswith("Decl"):
            n.d = j.get("id")
            if j.get("storageClass"):
                n.x = dict(n.x or {}, storage=j["storageClass"])
            if k == "FieldDecl" and j.get("isBitfield"):
                n.x = dict(n.x or {}, bitfield=True)
        # any other attribute holding locations keeps the state in step
        for key, val in j.items():
            if key in ("loc", "range", "inner", "type", "referencedDecl"):
                continue
            if isinstance(val, (dict, list)):
                self.skip(val)
        inner = j.get("inner")
        if inner:
            kids = []
            for c in inner:
                if isinstance(c, dict) and c.get("kind"):
                    kids.append(self.conv(c))
                elif isinstance(c, dict):
                    # clang emits {} for absent optional children (e.g. for-init)
                    e = N()
                    e.k = "Absent"
                    kids.append(e)
            n.kids = tuple(kids)
        return n


class TU(object):
    """Everything the rules need from one translation unit."""

    def __init__(self, family):
        self.family = family
        self.stub = stub_of(family)
        self.funcs = {}      # name -> N(FunctionDecl with body)
        self.protos = {}     # name -> type string (all functions seen, incl. system)
        self.globals = {}    # name -> N(VarDecl) from repo files
        self.records = {}    # struct name -> [(field, type)]
        self.typedefs = {}   # name -> type
        self.sysrecords = {} # system struct name -> [field names]
        self.order = []      # function names in document order
        self.digest = None

    def func(self, name):
        f = self.funcs.get(name)
        if f is None:
            raise AnalysisError("anchor vanished: function %s not found in %s"
                                % (name, self.stub))
        return f

    def body(self, name):
        f = self.func(name)
        for k in f.kids:
            if k.k == "CompoundStmt":
                return k
        raise AnalysisError("function %s has no body" % name)

    def params(self, name):
        return [k for k in self.func(name).kids if k.k == "ParmVarDecl"]


def _load_tu(family):
    cmd = clang_cmd(family)
    p = subprocess.run(cmd, cwd=REPO, capture_output=True)
    if p.returncode != 0:
        raise AnalysisError("clang failed on %s: %s" % (
            stub_of(family), p.stderr.decode("utf-8", "replace")[-2000:]))
    doc = json.loads(p.stdout)
    del p
    conv = _Conv()
    tu = TU(family)
    anon = {}
    for top in doc.get("inner", ()):
        # decide by the decl's own location whether it is a repo decl; the
        # location state must be advanced either way
        kind = top.get("kind")
        # peek at file: need to resolve the loc first -> conv or skip
        # Cheap pre-resolution: replicate state update for 'loc' only.
        save = (conv.file, conv.line)
        f = _peek_file(conv, top)
        conv.file, conv.line = save
        if f is not None and _is_repo_file(f):
            n = conv.conv(top)
            if kind == "FunctionDecl":
                tu.protos[n.n] = n.t
                if any(k.k == "CompoundStmt" for k in n.kids):
                    tu.funcs[n.n] = n
                    tu.order.append(n.n)
            elif kind == "VarDecl":
                # keep the defining declaration (with initialiser) if any
                old = tu.globals.get(n.n)
                if old is None or len(n.kids) >= len(old.kids):
                    tu.globals[n.n] = n
            elif kind == "RecordDecl":
                if n.n and n.kids:
                    tu.records[n.n] = [(k.n, k.t) for k in n.kids
                                       if k.k == "FieldDecl"]
            elif kind == "TypedefDecl":
                tu.typedefs[n.n] = n.t
                # anonymous struct typedef'd: record under the typedef name too
        else:
            if kind == "FunctionDecl" and "name" in top:
                t = top.get("type") or {}
                tu.protos[top["name"]] = t.get("qualType")
            elif kind == "TypedefDecl" and "name" in top:
                t = top.get("type") or {}
                tu.typedefs[top["name"]] = (t.get("desugaredQualType")
                                            or t.get("qualType"))
                for el in top.get("inner", ()):
                    otd = el.get("ownedTagDecl") or {}
                    if otd.get("id") in anon:
                        tu.sysrecords[top["name"]] = anon[otd["id"]]
            elif kind == "RecordDecl" and top.get("inner"):
                # system structs (type object, method suites): field names only
                fl = [c.get("name") for c in top["inner"]
                      if c.get("kind") == "FieldDecl"]
                if top.get("name"):
                    tu.sysrecords[top["name"]] = fl
                else:
                    anon[top.get("id")] = fl
            conv.skip(top)
    # resolve goto targets to label names
    for fn in tu.funcs.values():
        for n in fn.walk():
            if n.k == "GotoStmt":
                n.n = conv.labels.get(n.d)
    tu.digest = tu_digest(family)
    return tu


def _peek_file(conv, top):
    loc = top.get("loc")
    if loc:
        e, s = conv._loc(loc)
        if e is not None:
            return e[0]
    rng = top.get("range")
    if rng:
        e, s = conv._loc(rng.get("begin"))
        if e is not None:
            return e[0]
    return None


# --------------------------------------------------------------------------
# cache + parallel driver

def cache_dir():
    override = os.environ.get("VERIF_CACHE")
    for d in ([override] if override else []) + [os.path.join(VERIF, ".cache"), "/dev/shm/verif-cache"]:
        try:
            os.makedirs(d, exist_ok=True)
            if os.access(d, os.W_OK):
                return d
        except OSError:
            continue
    return None


def _cached_load(family, use_cache=True):
    sys.setrecursionlimit(20000)
    dig = tu_digest(family)
    cd = cache_dir() if use_cache else None
    path = os.path.join(cd, "tu-%s-%s.pickle" % (family, dig)) if cd else None
    if path and os.path.exists(path):
        try:
            with open(path, "rb") as f:
                return pickle.load(f)
        except Exception:
            pass
    tu = _load_tu(family)
    if path:
        tmp = path + ".%d.tmp" % os.getpid()
        try:
            with open(tmp, "wb") as f:
                pickle.dump(tu, f, protocol=pickle.HIGHEST_PROTOCOL)
            os.replace(tmp, path)
            # drop stale entries of this family (only for the real repository;
            # scratch copies used by the self-tests come and go)
            for fn in (os.listdir(cd) if REPO == "/repo" else ()):
                if fn.startswith("tu-%s-" % family) and fn != os.path.basename(path):
                    try:
                        os.unlink(os.path.join(cd, fn))
                    except OSError:
                        pass
        except OSError:
            pass
    return tu


def _worker(args):
    family, use_cache = args
    try:
        return family, _cached_load(family, use_cache), None
    except AnalysisError as e:
        return family, None, str(e)


def load_all(fams=None, use_cache=True, jobs=None):
    """{family: TU} for every family of the build matrix."""
    sys.setrecursionlimit(20000)
    fams = list(fams or families())
    on_disk = sorted(_all_stub_names())
    if sorted(fams) != on_disk and fams == families():
        raise AnalysisError(
            "build matrix mismatch: setup.py FAMILIES %s vs stubs on disk %s"
            % (sorted(fams), on_disk))
    jobs = jobs or min(len(fams), os.cpu_count() or 4)
    out = {}
    if jobs <= 1 or len(fams) == 1:
        for f in fams:
            out[f] = _cached_load(f, use_cache)
        return out
    with ProcessPoolExecutor(max_workers=jobs) as ex:
        for fam, tu, err in ex.map(_worker, [(f, use_cache) for f in fams]):
            if err:
                raise AnalysisError(err)
            out[fam] = tu
    return out


if __name__ == "__main__":
    import time
    t = time.time()
    tus = load_all()
    print("loaded", len(tus), "TUs in %.1fs" % (time.time() - t))
    for f, tu in sorted(tus.items()):
        print(f, len(tu.funcs), "functions", len(tu.globals), "globals")
