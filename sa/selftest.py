"""Thorough tier: mutation adequacy and equivalence (false-alarm) tests.

Every operator is a textual edit of one repository source file.  A *breaking*
operator is applied at each of its match sites (one site per variant) to a
scratch copy of the sources; the variant must still parse (clang -fsyntax-only
on a stub / ast.parse), the property's quick analysis is re-run on the copy
(VERIF_REPO) and must report a violation (exit 1).  An *equivalence* operator
changes layout or spelling without changing behaviour; the analysis must stay
silent (exit 0).  Nothing of BTrees is built or executed.  Results go into the
evidence file; they grade the checker, they are not violations of the property.
"""
import os
import random
import re
import shutil
import subprocess
import tempfile
from concurrent.futures import ThreadPoolExecutor

from .common import REPO, VERIF, SRC

B = SRC + "/BucketTemplate.c"
T = SRC + "/BTreeTemplate.c"
S = SRC + "/SetTemplate.c"
TS = SRC + "/TreeSetTemplate.c"
SO = SRC + "/SetOpTemplate.c"
M = SRC + "/MergeTemplate.c"
I = SRC + "/BTreeItemsTemplate.c"
MOD = SRC + "/BTreeModuleTemplate.c"
SORT = SRC + "/sorters.c"
IK = SRC + "/intkeymacros.h"
IV = SRC + "/intvaluemacros.h"
FV = SRC + "/floatvaluemacros.h"
OK_ = SRC + "/objectkeymacros.h"
PY = SRC + "/_base.py"
DT = SRC + "/_datatypes.py"
LEN = SRC + "/Length.py"
CHK = SRC + "/check.py"
CMP = SRC + "/_compat.py"

# (id, kind, properties, file, regex, replacement, what)   kind: break | equiv
OPERATORS = [
    # ---- pins / persistence ---------------------------------------------------
    ("del-unuse", "break", ["C05"], B, r"^[ \t]*PER_UNUSE\(self\);\n", "", "delete one PER_UNUSE(self)"),
    ("del-unuse-t", "break", ["C05"], T, r"^[ \t]*PER_UNUSE\(self\);\n", "", "delete one PER_UNUSE(self)"),
    ("del-use", "break", ["C05"], B, r"^[ \t]*PER_USE_OR_RETURN\(self, (NULL|-1)\);\n", "",
     "delete one activation"),
    ("del-changed", "break", ["C04"], B, r"if \(PER_CHANGED\(self\) >= 0\)\n", "if (1)\n",
     "drop one change registration"),
    ("del-changed-flag", "break", ["C04"], T, r"^[ \t]*changed = 1;[^\n]*\n", "", "delete one `changed = 1`"),
    ("del-readcurrent", "break", ["C08"], T, r"^[ \t]*PER_READCURRENT\(self, goto Error\);\n", "",
     "delete the read-dependency declaration"),
    ("py-del-readcurrent", "break", ["C08"], PY, r"^[ \t]*self\._p_jar\.readCurrent\(self\)\n", "            pass\n",
     "delete one readCurrent call"),
    ("py-del-pchanged", "break", ["C04"], PY, r"^[ \t]*self\._p_changed = True\n", "", "delete one _p_changed"),
    # ---- allocation / references ------------------------------------------------
    ("del-storeback", "break", ["C17"], B, r"^[ \t]*self->keys = keys;\n", "", "delete a realloc store-back"),
    ("del-null-check", "break", ["C17"], T, r"if \(d == NULL\)\n[ \t]*return -1;\n", "", "drop an allocation check"),
    ("del-free-reset", "break", ["C17"], B, r"^[ \t]*self->keys = NULL;\n", "", "drop the reset after free"),
    ("del-decref", "break", ["C16"], T, r"^[ \t]*Py_DECREF\((lowbucket|highbucket|b|e)\);\n", "",
     "delete one Py_DECREF of an owned local"),
    ("release-in-place", "break", ["C16"], B, r"#ifdef KEY_TYPE_IS_PYOBJECT\n        old_key = self->keys\[i\];\n#endif\n",
     "        DECREF_KEY(self->keys[i]);\n", "release the deleted key while keys[i] still points at it"),
    ("release-in-place-t", "break", ["C16"], T, r"dead_key = d->key;", "Py_DECREF(d->key);",
     "release a separator while the node still points at it"),
    ("release-early", "break", ["C16"], B, r"(            old_value = self->values\[i\];\n)(#endif\n            COPY_VALUE)",
     r"\1            Py_DECREF(old_value); old_value = NULL;\n\2", "release the old value before the slot is overwritten"),
    ("del-fini", "break", ["C14"], SO, r"^[ \t]*finiSetIteration\(&i[12]\);\n", "", "delete one finiSetIteration"),
    ("del-fini-merge", "break", ["C14"], M, r"^[ \t]*finiSetIteration\(&i[123]\);\n", "", "delete one finiSetIteration"),
    # ---- conversion ----------------------------------------------------------------
    ("del-copied-check", "break", ["C13", "C09"], B, r"UNLESS\(copied\)\n[ \t]*return -1;\n", "",
     "drop a conversion status check"),
    ("del-roundtrip", "break", ["C13"], IK, r"else if \(\(int\)vcopy != vcopy\) \{[^}]*\}[ \t]*\\\n[ \t]*", "",
     "drop the int round-trip test of the key macro"),
    ("py-drop-tokey", "break", ["C09", "C13"], PY, r"self\._to_key\(key\)", "key", "use a raw key"),
    ("py-drop-tovalue", "break", ["C13"], PY, r"self\._to_value\(value\)", "value", "use a raw value"),
    # ---- tables -----------------------------------------------------------------------
    ("merge-code", "break", ["C07"], M, r"merge_error\(i1\.position, i2\.position, i3\.position, ([2-8])\)",
     lambda m: m.group(0)[:-2] + str(int(m.group(1)) + 1) + ")", "change one refusal reason"),
    ("merge-swap", "break", ["C07"], M, r"merge_output\(r, &i2, mapping\)", "merge_output(r, &i3, mapping)",
     "emit the other cursor"),
    ("py-merge-code", "break", ["C07"], PY, r"raise merge_error\(([2-8])\)",
     lambda m: "raise merge_error(%d)" % (int(m.group(1)) + 1), "change one refusal reason (Python)"),
    ("py-merge-swap", "break", ["C07"], PY, r"merge_output\(i_com\)", "merge_output(i_new)", "emit the other cursor (Python)"),
    ("setop-selectors", "break", ["C10"], SO, r"1, 0, 0\);     /\* take only keys unique to o1 \*/",
     "0, 1, 0);", "difference computes intersection"),
    ("setop-selectors2", "break", ["C10"], SO, r"0, 1, 0\);        /\* take only keys common to both \*/",
     "1, 1, 1);", "intersection computes union"),
    ("py-setop-copy", "break", ["C10"], PY, r"(        if cmp_ < 0:\n            copy\(i1\)\n            i1\.advance\(\)\n        elif cmp_ == 0:\n            i1\.advance\(\))",
     lambda m: m.group(0).replace("copy(i1)\n            i1.advance()\n        elif", "i1.advance()\n        elif"),
     "difference drops keys unique to the first operand"),
    ("weight-swap", "break", ["C12"], SO, r"v=w1; w1=w2; w2=v;", "v=w1; w1=w1; w2=v;", "break the weight swap"),
    ("py-weight-swap", "break", ["C12"], PY, r"        w1, w2 = w2, w1\n", "", "forget to swap the weights (Python)"),
    ("merge-macro", "break", ["C12"], IV, r"\(\(O1\)\*\(w1\)\+\(O2\)\*\(w2\)\)", "((O1)*(w1)+(O2)*(w1))", "wrong weight in MERGE"),
    ("range-offset", "break", ["C02"], B, r"if \(low\)\n[ \t]*\+\+i;\n[ \t]*else\n[ \t]*--i;", "if (low)\n                ++i;", "exclusive high end keeps the match"),
    ("py-range-offset", "break", ["C02"], PY, r"if not excludemax:\n                    end \+= 1", "if excludemax:\n                    end += 1",
     "invert the inclusive/exclusive end"),
    ("size-threshold", "break", ["C03", "C09"], T, r"toobig = childlength > max_size;", "toobig = childlength >= max_size;",
     "split one entry early"),
    ("py-size-threshold", "break", ["C03", "C09"], PY, r"if child\.size > max_size:", "if child.size >= max_size:",
     "split one entry early (Python)"),
    ("radix-flip", "break", ["C11"], SORT, r"for \(i = 128; i < 256; \+\+i\)", "for (i = 0; i < 128; ++i)",
     "wrong byte order in the last radix pass"),
    ("tp-name", "break", ["C06"], B, r'MODULE_NAME MOD_NAME_PREFIX "Bucket"', 'MODULE_NAME MOD_NAME_PREFIX "Buckets"',
     "rename a pickled type"),
    ("state-order", "break", ["C06"], PY, r"            data\.append\(keys\[i\]\)\n            data\.append\(values\[i\]\)",
     "            data.append(values[i])\n            data.append(keys[i])", "write values before keys"),
    ("check-del", "break", ["C18"], T, r'^[ \t]*CHECK\(BUCKET\(child\)->next == bucketafter,\n[^\n]*\n', "",
     "delete the leaf-link assertion"),
    ("py-check-del", "break", ["C18"], PY, r'            assert_\(i\.child\.size, "Bucket length < 1"\)\n', "",
     "delete the non-empty assertion (Python)"),
    ("cursor-guard", "break", ["C15", "C02"], I, r"if \(i >= bucket->len\)", "if (i > bucket->len)", "off-by-one cursor guard"),
    ("cmp-clear", "break", ["C14"], B, r"(BUCKET_SEARCH\(i, cmp, self, key, )goto Done\);", r"\1{PyErr_Clear(); goto Done;});",
     "swallow a comparison exception"),
    ("search-branch", "break", ["C01"], B, r"(BUCKET_SEARCH\(i, cmp, self, key, goto Done\);\n    if \(cmp) == 0\)", r"\1 != 0)",
     "the found / absent branches of _bucket_set are swapped"),
    ("none-order", "break", ["C01"], OK_, r"\(lhs == Py_None \? \(rhs == Py_None \? 0 : -1\)", "(lhs == Py_None ? (rhs == Py_None ? 0 : 1)",
     "None is ordered last"),
    ("py-none-order", "break", ["C01"], CMP, r"            return -1\n", "            return 1\n", "None is ordered last (Python)"),
    ("len-formula", "break", ["C19"], LEN, r"return s1 \+ s2 - old", "return s1 + s2 + old", "wrong resolution formula"),
    ("len-cell", "break", ["C19"], LEN, r"self\.value \+= delta", "self.value = delta", "change() overwrites"),
    # ---- C state layout (clayout), NULL-RESULT, EXC-LEAK ----------------------------------
    ("c-state-len", "break", ["C06"], B, r"len /= 2;", "len /= 3;", "leaf reader halves the item count wrongly"),
    ("c-state-order", "break", ["C06"], B,
     r"(            COPY_KEY_TO_OBJECT\(o, self->keys\[i\]\);\n            if \(o == NULL\)\n            goto err;\n            PyTuple_SET_ITEM\(items, l, o\);\n            l\+\+;\n\n)(            COPY_VALUE_TO_OBJECT\(o, self->values\[i\]\);\n            if \(o == NULL\)\n            goto err;\n            PyTuple_SET_ITEM\(items, l, o\);\n            l\+\+;\n)",
     lambda m: m.group(2) + "\n" + m.group(1), "leaf writer emits the value before the key"),
    ("c-state-treelen", "break", ["C06"], T, r"len = \(len \+ 1\) / 2;", "len = len / 2;", "tree reader miscounts the children"),
    ("c-state-treesize", "break", ["C06"], T, r"PyTuple_New\(self->len \* 2 - 1\)", "PyTuple_New(self->len * 2)",
     "tree writer allocates one slot too many"),
    ("c-state-next", "break", ["C06"], B, r'Py_BuildValue\("OO", items, self->next\)', 'Py_BuildValue("OO", self->next, items)',
     "leaf writer swaps items and successor"),
    ("c-state-first", "break", ["C06"], T, r"firstbucket = \(PyObject \*\)self->data->child;",
     "firstbucket = (PyObject *)self->data[len - 1].child;", "default first bucket is the last child"),
    ("null-result", "break", ["C16"], T, r"    b = BTree_lastBucket\(self\);\n    if \(b == NULL\)\n        goto err;\n",
     "    b = BTree_lastBucket(self);\n", "drop the NULL test of a may-fail result"),
    ("null-result2", "break", ["C16"], T, r"        if \(bucket == NULL\)\n            return NULL;\n", "",
     "drop the NULL test in maxKey"),
    ("exc-leak", "break", ["C09"], S, r"                ind = -1;  /\* the iterator failed: report its exception \*/\n", "",
     "return the count although the iterator failed"),
    ("exc-leak-t", "break", ["C09"], TS, r"                ind = -1;  /\* the iterator failed: report its exception \*/\n", "",
     "return the count although the iterator failed"),
    ("err-swallow", "break", ["C10"], I,
     r"            if \(!PyErr_ExceptionMatches\(PyExc_IndexError\)\)\n                return -1;\n", "",
     "a set-operation cursor clears every exception of a failed seek"),
    ("err-ignored", "break", ["C02"], I, r"    if \(len < 0\)\n        return NULL;\n\n    if \(PyIndex_Check", "    if (PyIndex_Check",
     "go on with a failed length"),
    # ---- tree-level endpoint search, minKey / maxKey, delete tail ---------------------------
    ("findend-reset", "break", ["C02"], T,
     r"        if \(i\)\n        \{\n            deepest_smaller = self->data\[i-1\]\.child;\n            deepest_smaller_is_btree = pchild_is_btree;\n        \}\n",
     "        deepest_smaller = i ? self->data[i-1].child : NULL;\n        deepest_smaller_is_btree = pchild_is_btree;\n",
     "forget the left-move candidate when the descent takes child 0"),
    ("findend-next-offset", "break", ["C02"], T, r"        \*bucket = next;\n        \*offset = 0;", "        *bucket = next;\n        *offset = 1;",
     "low end moved to the next leaf starts at its second entry"),
    ("findend-left-offset", "break", ["C02"], T, r"\*offset = pbucket->len - 1;", "*offset = pbucket->len;",
     "high end moved left lands behind the last entry"),
    ("range-wiring-flag", "break", ["C02"], T, r"BTree_findRangeEnd\(self, max, 0, excludemax,", "BTree_findRangeEnd(self, max, 0, excludemin,",
     "the high end is searched with the low end's exclusion flag"),
    ("range-wiring-end", "break", ["C02"], T, r"BTree_findRangeEnd\(self, min, 1, excludemin,", "BTree_findRangeEnd(self, min, 0, excludemin,",
     "the low bound is searched as a high end"),
    ("c-maxkey-offset", "break", ["C02"], T, r"        offset = bucket->len - 1;\n", "        offset = bucket->len;\n",
     "maxKey() without a bound reads behind the last entry"),
    ("c-minmax-end", "break", ["C02"], T, r"BTree_findRangeEnd\(self, key, min, 0, &bucket, &offset\)",
     "BTree_findRangeEnd(self, key, min, 1, &bucket, &offset)", "minKey(b) / maxKey(b) search exclusively"),
    ("c-leaf-maxkey", "break", ["C02"], B, r"        offset = self->len -1;\n", "        offset = 0;\n",
     "leaf maxKey() without a bound answers with the first key"),
    ("py-minkey-gap", "break", ["C02"], PY,
     r"                compare\(bucket\.maxKey\(\), min\) < 0\n", "                compare(bucket.maxKey(), min) <= 0\n",
     "minKey moves to the next leaf although the bound is the leaf's last key"),
    ("py-maxkey-left", "break", ["C02"], PY, r"        if index and compare\(data\[index\]\.child\.minKey\(\), max\) > 0:\n            index -= 1",
     "        if index and compare(data[index].child.minKey(), max) > 0:\n            index -= 0",
     "maxKey does not move to the left child"),
    ("py-leaf-maxkey", "break", ["C02"], PY, r"                return self\._keys\[index - 1\]\n", "                return self._keys[index]\n",
     "leaf maxKey answers with the next larger key"),
    ("py-del-firstbucket", "break", ["C01", "C03"], PY,
     r"            else:\n                self\._firstbucket = child\._firstbucket\n", "            elif child.size:\n                self._firstbucket = child._firstbucket\n",
     "first leaf pointer not moved when the interior child 0 became empty"),
    ("py-del-flag", "break", ["C01", "C03"], PY, r"                    self\._firstbucket = child\._next\n                    removed_first_bucket = True\n",
     "                    self._firstbucket = child._next\n", "parent is not told that the first leaf went away"),
    ("eq-err-swallow-demorgan", "equiv", ["C10"], S,
     r"        if \(BTree_ShouldSuppressKeyError\(\)\) \{\n            PyErr_Clear\(\);\n        \}\n        else if \(PyErr_ExceptionMatches\(PyExc_TypeError\)\) \{\n[^\n]*\n            PyErr_Clear\(\);\n        \}\n        else \{\n            return NULL;\n        \}\n",
     "        if (!BTree_ShouldSuppressKeyError() && !PyErr_ExceptionMatches(PyExc_TypeError))\n            return NULL;\n        PyErr_Clear();\n",
     "class tests of discard() merged into one negated test with an early return"),
    ("eq-c-state-index", "equiv", ["C06"], B,
     r"        k = PyTuple_GET_ITEM\(items, l\);\n        l\+\+;\n        v = PyTuple_GET_ITEM\(items, l\);\n        l\+\+;\n",
     "        k = PyTuple_GET_ITEM(items, 2 * i);\n        v = PyTuple_GET_ITEM(items, 2 * i + 1);\n",
     "index the state items by 2*i instead of a running counter"),
    ("eq-c-state-pack", "equiv", ["C06"], B, r'Py_BuildValue\("\(O\)", items\)', "PyTuple_Pack(1, items)",
     "build the 1-tuple with PyTuple_Pack"),
    ("check-sorted-keys", "break", ["C18"], CHK, r"        for x in keys:\n", "        for x in sorted(keys):\n",
     "check_sorted looks at a sorted copy of the keys"),
    ("check-dedup-leaf", "break", ["C18"], CHK, r"        return data, \[\]\n", "        return sorted(set(data)), []\n",
     "crack_bucket hands on the de-duplicated, sorted keys of a set leaf"),
    ("check-range-last", "break", ["C18"], CHK, r"                        if i < n - 1:\n", "                        if i < n:\n",
     "the last child of a node gets an upper bound from beyond the separators"),
    ("py-check-successor", "break", ["C18"], PY, r"data\[i\]\.child\._check\(data\[i \+ 1\]\.child\._firstbucket\)",
     "data[i].child._check(data[i].child._firstbucket)", "the recursion is told the wrong successor leaf"),
    ("eq-check-n-name", "equiv", ["C18"], CHK, r"\bn = len\(kids\)\n(\s+for i in range\(len\(kids\) - 1, -1, -1\):\n\s+newlo, newhi = lo, hi\n\s+if i < )n - 1:",
     r"count = len(kids)\n\1count - 1:", "the number of children under another name"),
    ("eq-check-worklist", "equiv", ["C18"], CHK, r"            obj, path, parent, lo, hi = stack\.pop\(\)\n",
     "            stack.reverse()\n            stack.reverse()\n            obj, path, parent, lo, hi = stack.pop()\n",
     "the work list of nodes is re-ordered (twice): no key sequence is"),
    ("seek-step-right", "break", ["C02"], I, r"        pseudoindex \+= max \+ 1;\n", "        pseudoindex += max;\n",
     "moving to the next leaf counts one item too few"),
    ("seek-land-left", "break", ["C02"], I, r"        currentoffset = currentbucket->len - 1;\n", "        currentoffset = currentbucket->len;\n",
     "moving to the previous leaf lands behind its last item"),
    ("seek-delta-left", "break", ["C02"], I, r"        delta \+= currentoffset \+ 1;\n", "        delta += currentoffset;\n",
     "the distance still to go is one off after a move to the previous leaf"),
    ("eq-seek-commit-once", "equiv", ["C02", "C15"], I,
     r"    self->currentoffset = currentoffset;\n    self->pseudoindex = pseudoindex;\n",
     "    self->pseudoindex = pseudoindex;\n    self->currentoffset = currentoffset;\n",
     "the two integer fields of the finger committed in the other order"),
    ("eq-rename-seek-max", "equiv", ["C02"], I, r"\bmax\b", "room", "the room left in the leaf under another name"),
    # ---- equivalence operators (must NOT alarm) ------------------------------------------
    ("eq-shift-lines", "equiv", ["C05", "C04", "C16", "C17", "C14"], B, r"\A", "/* moved */\n\n\n", "shift every line of the file"),
    ("eq-shift-lines-t", "equiv", ["C05", "C04", "C08", "C03", "C01", "C18"], T, r"\A", "/* moved */\n\n\n", "shift every line of the file"),
    ("eq-unless", "equiv", ["C05", "C13", "C17"], B, r"UNLESS \(PER_USE\(self\)\)", "if (!(PER_USE(self)))", "spell UNLESS as if(!())"),
    ("eq-rename-local", "equiv", ["C05", "C13", "C09", "C01"], B, r"\bcopied\b", "converted_ok", "rename a local everywhere"),
    ("eq-rename-oldkey", "equiv", ["C16", "C14"], B, r"\bold_key\b", "removed_key", "rename the take-over local everywhere"),
    ("eq-py-shift", "equiv", ["C04", "C07", "C08", "C10", "C12", "C09", "C13", "C02", "C03", "C06", "C01"], PY,
     r"\A", "# moved\n\n", "shift every line of _base.py"),
    ("eq-py-rename", "equiv", ["C07"], PY, r"\bcmpOC\b", "cmp_old_com", "rename a local in the merge"),
    ("eq-merge-nest", "equiv", ["C07"], M, r"else if \(cmp13 > 0\)\n            \{                   /\* insert i3 \*/",
     "else if (!(cmp13 <= 0))\n            {", "rewrite a comparison equivalently"),
    ("eq-setop-comment", "equiv", ["C10", "C12", "C14"], SO, r"\A", "/* x */\n", "shift SetOpTemplate.c"),
    ("eq-len-local", "equiv", ["C19"], LEN, r"        return s1 \+ s2 - old", "        delta = s1 - old\n        return s2 + delta",
     "compute the same polynomial through a local"),
]


def _copy_repo(dst):
    os.makedirs(dst)
    for rel in ("src/BTrees", "include", "setup.py"):
        s = os.path.join(REPO, rel)
        d = os.path.join(dst, rel)
        if os.path.isdir(s):
            shutil.copytree(s, d, ignore=shutil.ignore_patterns("*.so", "__pycache__", "tests"))
        else:
            os.makedirs(os.path.dirname(d), exist_ok=True)
            shutil.copy(s, d)


def _syntax_ok(root, rel):
    if rel.endswith(".py"):
        import ast
        try:
            ast.parse(open(os.path.join(root, rel)).read())
            return True
        except SyntaxError:
            return False
    from . import cfront
    for fam in ("OO", "II", "IF"):
        cmd = [cfront.CLANG, "-fsyntax-only", "-w", "-Iinclude/persistent",
               "-I" + cfront.python_include()] + cfront.build_flags(fam) + [cfront.stub_of(fam)]
        p = subprocess.run(cmd, cwd=root, capture_output=True)
        if p.returncode != 0:
            return False
    return True


def variants(prop, seed=0, per_op=3):
    """[(op id, kind, file, site index, what)] for the property."""
    out = []
    rnd = random.Random(seed)
    for op in OPERATORS:
        oid, kind, props, rel, pat, rep, what = op
        if prop not in props:
            continue
        try:
            text = open(os.path.join(REPO, rel)).read()
        except OSError:
            continue
        sites = [m.start() for m in re.finditer(pat, text, re.M)]
        if not sites:
            out.append((oid, kind, rel, -1, what))
            continue
        idx = list(range(len(sites)))
        if len(idx) > per_op:
            idx = sorted(rnd.sample(idx, per_op))
        for i in idx:
            out.append((oid, kind, rel, i, what))
    return out


def run_variant(prop, v):
    oid, kind, rel, site, what = v
    res = {"op": oid, "kind": kind, "file": rel, "site": site, "what": what}
    if site < 0:
        res["outcome"] = "no-site"
        return res
    op = [o for o in OPERATORS if o[0] == oid][0]
    pat, rep = op[4], op[5]
    root = tempfile.mkdtemp(prefix="verif-%d-" % os.getpid(), dir="/dev/shm")
    shutil.rmtree(root)
    cache = root + "-cache"
    try:
        _copy_repo(root)
        p = os.path.join(root, rel)
        text = open(p).read()
        ms = list(re.finditer(pat, text, re.M))
        m = ms[site]
        new = rep(m) if callable(rep) else m.expand(rep)
        if oid.startswith("eq-rename") or oid == "eq-py-rename":  # rename everywhere
            text2 = re.sub(pat, rep, text)
        else:
            text2 = text[:m.start()] + new + text[m.end():]
        res["line"] = text.count("\n", 0, m.start()) + 1
        open(p, "w").write(text2)
        if not _syntax_ok(root, rel):
            res["outcome"] = "does-not-compile"
            return res
        env = dict(os.environ, VERIF_REPO=root, VERIF_NO_EVIDENCE="1", VERIF_CACHE=cache)
        q = subprocess.run(["/venv/bin/python", "-m", "sa.main", prop, "--tier", "quick"],
                           cwd=VERIF, env=env, capture_output=True, text=True)
        rules = sorted(set(l.split("rule=")[1].split()[0] for l in q.stdout.splitlines()
                           if l.strip().startswith("rule=")))
        res["exit"] = q.returncode
        res["rules"] = rules
        if kind == "break":
            res["outcome"] = "killed" if q.returncode == 1 else \
                "unanalysable" if q.returncode == 2 else "survived"
        else:
            res["outcome"] = "silent" if q.returncode == 0 else \
                "FALSE-ALARM" if q.returncode == 1 else "unanalysable"
        if q.returncode == 2:
            res["message"] = (q.stdout.strip().splitlines() or [""])[-1][:200]
    finally:
        shutil.rmtree(root, ignore_errors=True)
        shutil.rmtree(cache, ignore_errors=True)
    return res


def run(prop, seed=0, per_op=3, jobs=3):
    vs = variants(prop, seed, per_op)
    with ThreadPoolExecutor(max_workers=jobs) as ex:
        results = list(ex.map(lambda v: run_variant(prop, v), vs))
    summary = {}
    for r in results:
        summary[r["outcome"]] = summary.get(r["outcome"], 0) + 1
    return {"variants": len(results), "summary": summary, "results": results}
